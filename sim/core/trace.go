package core

import (
	"crypto/sha256"
	"encoding/hex"
	"fmt"
	"hash"
	"sort"
)

// Violation is one oracle failure.
type Violation struct {
	Property  string `json:"property"`
	Oracle    string `json:"oracle"`    // oracle id, e.g. C01/field/UpdateCommitment
	Signature string `json:"signature"` // oracle id + witness class; matched against known_findings.json
	Detail    string `json:"detail"`
	Step      int    `json:"step"`
}

func (v *Violation) String() string {
	return fmt.Sprintf("%s [%s] step=%d: %s", v.Property, v.Signature, v.Step, v.Detail)
}

// Trace records the run: a streaming hash of every event (the determinism fingerprint), counters and probes.
type Trace struct {
	h          hash.Hash
	Events     uint64
	Tail       []string // last events kept for reports
	keepTail   int
	Probes     map[string]uint64 // "rare condition was hit" counters
	Faults     map[string]uint64 // faults that actually fired, by kind
	Counts     map[string]uint64 // generic counters (evaluations etc.)
	Distinct   map[string]struct{}
	Violations []*Violation
	Samples    []any
	SimSecs    int64
	Verbose    bool
	Log        []string
}

func NewTrace() *Trace {
	return &Trace{h: sha256.New(), keepTail: 40, Probes: map[string]uint64{}, Faults: map[string]uint64{},
		Counts: map[string]uint64{}, Distinct: map[string]struct{}{}}
}

// Event appends an event to the fingerprint. It draws nothing and reads no clock.
func (t *Trace) Event(format string, a ...any) {
	s := fmt.Sprintf(format, a...)
	t.Events++
	fmt.Fprintf(t.h, "%d:%s\n", t.Events, s)
	if t.Verbose {
		t.Log = append(t.Log, s)
	}
	t.Tail = append(t.Tail, s)
	if len(t.Tail) > t.keepTail {
		t.Tail = t.Tail[1:]
	}
}

func (t *Trace) Probe(name string)           { t.Probes[name]++ }
func (t *Trace) Fault(kind string)           { t.Faults[kind]++ }
func (t *Trace) Count(name string, n uint64) { t.Counts[name] += n }

// Mark records a distinct non-trivial case (by fingerprint string).
func (t *Trace) Mark(fp string) { t.Distinct[fp] = struct{}{} }

func (t *Trace) Fingerprint() string { return hex.EncodeToString(t.h.Sum(nil)) }

// Violate records a violation; the run continues so that the first one is reported with full context.
func (t *Trace) Violate(v *Violation) {
	t.Event("VIOLATION %s %s", v.Signature, v.Detail)
	if len(t.Violations) < 20 {
		t.Violations = append(t.Violations, v)
	}
}

// SortedKeys returns map keys sorted (the harness never ranges over a map to take a decision).
func SortedKeys[V any](m map[string]V) []string {
	ks := make([]string, 0, len(m))
	for k := range m {
		ks = append(ks, k)
	}
	sort.Strings(ks)
	return ks
}
