package core

// DDMin minimises a list while test(list) keeps returning true (classic delta debugging, complement-first).
// budget bounds the number of test evaluations.
func DDMin[T any](items []T, test func([]T) bool, budget int) []T {
	n := 2
	evals := 0
	for len(items) >= 2 && evals < budget {
		chunk := (len(items) + n - 1) / n
		reduced := false
		for start := 0; start < len(items) && evals < budget; start += chunk {
			end := start + chunk
			if end > len(items) {
				end = len(items)
			}
			cand := append(append([]T{}, items[:start]...), items[end:]...)
			evals++
			if len(cand) > 0 && test(cand) {
				items = cand
				if n > 2 {
					n--
				}
				reduced = true
				break
			}
		}
		if !reduced {
			if n >= len(items) {
				break
			}
			n *= 2
			if n > len(items) {
				n = len(items)
			}
		}
	}
	// final one-by-one pass
	for i := 0; i < len(items) && len(items) > 1 && evals < budget; {
		cand := append(append([]T{}, items[:i]...), items[i+1:]...)
		evals++
		if test(cand) {
			items = cand
		} else {
			i++
		}
	}
	return items
}
