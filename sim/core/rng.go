// Package core holds the simulator kernel: PRNG streams, discrete-event queue, trace, probes, shrinker.
package core

import (
	"crypto/sha256"
	"encoding/binary"
)

// RNG is SplitMix64. One VERIF_SEED seeds the root; named sub-streams are derived by hashing, so adding
// draws to one stream never shifts another.
type RNG struct{ s uint64 }

func NewRNG(seed uint64) *RNG { return &RNG{s: seed} }

// Stream derives an independent named sub-stream.
func (r *RNG) Stream(name string) *RNG {
	h := sha256.New()
	var b [8]byte
	binary.LittleEndian.PutUint64(b[:], r.s)
	h.Write(b[:])
	h.Write([]byte(name))
	return &RNG{s: binary.LittleEndian.Uint64(h.Sum(nil)[:8])}
}

func (r *RNG) Uint64() uint64 {
	r.s += 0x9e3779b97f4a7c15
	z := r.s
	z = (z ^ (z >> 30)) * 0xbf58476d1ce4e5b9
	z = (z ^ (z >> 27)) * 0x94d049bb133111eb
	return z ^ (z >> 31)
}

// Intn returns a value in [0,n). n must be > 0.
func (r *RNG) Intn(n int) int {
	if n <= 0 {
		panic("core.RNG.Intn: n <= 0")
	}
	return int(r.Uint64() % uint64(n))
}

// Range returns a value in [lo,hi].
func (r *RNG) Range(lo, hi int) int { return lo + r.Intn(hi-lo+1) }

// Chance is true with probability num/den.
func (r *RNG) Chance(num, den int) bool { return r.Intn(den) < num }

func (r *RNG) Float() float64 { return float64(r.Uint64()>>11) / (1 << 53) }

// Bytes fills n pseudo-random bytes.
func (r *RNG) Bytes(n int) []byte {
	out := make([]byte, n)
	for i := 0; i < n; i += 8 {
		var b [8]byte
		binary.LittleEndian.PutUint64(b[:], r.Uint64())
		copy(out[i:], b[:])
	}
	return out
}

// Pick returns one element.
func Pick[T any](r *RNG, xs []T) T { return xs[r.Intn(len(xs))] }

// Shuffle permutes in place.
func Shuffle[T any](r *RNG, xs []T) {
	for i := len(xs) - 1; i > 0; i-- {
		j := r.Intn(i + 1)
		xs[i], xs[j] = xs[j], xs[i]
	}
}

// Subset keeps each element with probability num/den, preserving order.
func Subset[T any](r *RNG, xs []T, num, den int) []T {
	var out []T
	for _, x := range xs {
		if r.Chance(num, den) {
			out = append(out, x)
		}
	}
	return out
}
