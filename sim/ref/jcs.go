// Package ref is the reference model ("oracle side") of the simulator. It is written from
// the property text, RFC 8785, RFC 6902 and the multihash spec and MUST NOT import any
// package of the code under test.
package ref

import (
	"bytes"
	"encoding/json"
	"fmt"
	"io"
	"math"
	"sort"
	"strconv"
	"strings"
	"unicode/utf16"
)

// Parse decodes JSON text into generic values (map[string]any, []any, string, json.Number, bool, nil).
func Parse(b []byte) (any, error) {
	d := json.NewDecoder(bytes.NewReader(b))
	d.UseNumber()
	var v any
	if err := d.Decode(&v); err != nil {
		return nil, err
	}
	if _, terr := d.Token(); terr != io.EOF {
		return nil, fmt.Errorf("trailing data")
	}
	if err := checkNumbers(v); err != nil {
		return nil, err
	}
	return v, nil
}

// checkNumbers refuses number literals that are not finite IEEE-754 doubles (I-JSON).
func checkNumbers(v any) error {
	switch x := v.(type) {
	case json.Number:
		if _, err := strconv.ParseFloat(string(x), 64); err != nil {
			return fmt.Errorf("number out of range: %s", x)
		}
	case []any:
		for _, e := range x {
			if err := checkNumbers(e); err != nil {
				return err
			}
		}
	case map[string]any:
		for _, e := range x {
			if err := checkNumbers(e); err != nil {
				return err
			}
		}
	}
	return nil
}

// MustParse is Parse for harness-authored literals.
func MustParse(s string) any {
	v, err := Parse([]byte(s))
	if err != nil {
		panic(fmt.Sprintf("ref.MustParse(%q): %v", s, err))
	}
	return v
}

// RawJSON is JSON text the harness wants emitted verbatim (an integer literal beyond 2^53, which RFC 8785 would round: the
// bytes are then not canonical, which signed payloads need not be).
type RawJSON string

// JCS serialises a generic JSON value per RFC 8785.
func JCS(v any) []byte {
	var b bytes.Buffer
	writeJCS(&b, v)
	return b.Bytes()
}

func writeJCS(b *bytes.Buffer, v any) {
	switch x := v.(type) {
	case nil:
		b.WriteString("null")
	case bool:
		if x {
			b.WriteString("true")
		} else {
			b.WriteString("false")
		}
	case string:
		writeJCSString(b, x)
	case json.Number:
		f, err := strconv.ParseFloat(string(x), 64)
		if err != nil {
			panic("ref.JCS: bad number " + string(x))
		}
		b.WriteString(ES6Number(f))
	case RawJSON:
		b.WriteString(string(x))
	case float64:
		b.WriteString(ES6Number(x))
	case int:
		b.WriteString(ES6Number(float64(x)))
	case int64:
		b.WriteString(ES6Number(float64(x)))
	case uint64:
		b.WriteString(ES6Number(float64(x)))
	case []any:
		b.WriteByte('[')
		for i, e := range x {
			if i > 0 {
				b.WriteByte(',')
			}
			writeJCS(b, e)
		}
		b.WriteByte(']')
	case []string:
		b.WriteByte('[')
		for i, e := range x {
			if i > 0 {
				b.WriteByte(',')
			}
			writeJCSString(b, e)
		}
		b.WriteByte(']')
	case map[string]any:
		keys := make([]string, 0, len(x))
		for k := range x {
			keys = append(keys, k)
		}
		sort.Slice(keys, func(i, j int) bool { return utf16Less(keys[i], keys[j]) })
		b.WriteByte('{')
		for i, k := range keys {
			if i > 0 {
				b.WriteByte(',')
			}
			writeJCSString(b, k)
			b.WriteByte(':')
			writeJCS(b, x[k])
		}
		b.WriteByte('}')
	default:
		panic(fmt.Sprintf("ref.JCS: unsupported type %T", v))
	}
}

func utf16Less(a, c string) bool {
	ua, uc := utf16.Encode([]rune(a)), utf16.Encode([]rune(c))
	for i := 0; i < len(ua) && i < len(uc); i++ {
		if ua[i] != uc[i] {
			return ua[i] < uc[i]
		}
	}
	return len(ua) < len(uc)
}

func writeJCSString(b *bytes.Buffer, s string) {
	b.WriteByte('"')
	for _, r := range s {
		switch r {
		case '"':
			b.WriteString(`\"`)
		case '\\':
			b.WriteString(`\\`)
		case '\b':
			b.WriteString(`\b`)
		case '\f':
			b.WriteString(`\f`)
		case '\n':
			b.WriteString(`\n`)
		case '\r':
			b.WriteString(`\r`)
		case '\t':
			b.WriteString(`\t`)
		default:
			if r < 0x20 {
				fmt.Fprintf(b, `\u%04x`, r)
			} else {
				b.WriteRune(r)
			}
		}
	}
	b.WriteByte('"')
}

// ES6Number formats a finite double per ECMA-262 7.1.12.1 (Number::toString, radix 10).
func ES6Number(f float64) string {
	if math.IsNaN(f) || math.IsInf(f, 0) {
		panic("ref.ES6Number: not finite")
	}
	if f == 0 {
		return "0"
	}
	neg := ""
	if f < 0 {
		neg = "-"
		f = -f
	}
	// shortest round-trip digits and decimal exponent: d.ddd e±x
	s := strconv.FormatFloat(f, 'e', -1, 64)
	mant, expS, _ := strings.Cut(s, "e")
	exp, _ := strconv.Atoi(expS)
	digits := strings.Replace(mant, ".", "", 1)
	k := len(digits)
	n := exp + 1 // value = 0.digits * 10^n
	switch {
	case k <= n && n <= 21:
		return neg + digits + strings.Repeat("0", n-k)
	case 0 < n && n <= 21:
		return neg + digits[:n] + "." + digits[n:]
	case -6 < n && n <= 0:
		return neg + "0." + strings.Repeat("0", -n) + digits
	}
	e := n - 1
	sign := "+"
	if e < 0 {
		sign = "-"
		e = -e
	}
	if k == 1 {
		return neg + digits + "e" + sign + strconv.Itoa(e)
	}
	return neg + digits[:1] + "." + digits[1:] + "e" + sign + strconv.Itoa(e)
}

// Equal reports JSON value equality (numbers compared as doubles, object member order irrelevant).
func Equal(a, b any) bool {
	return bytes.Equal(JCS(Norm(a)), JCS(Norm(b)))
}

// Norm converts a value made of Go-typed containers (map[string]interface{} aliases, typed slices,
// float64/int) into the generic form by a JSON round trip. It is only used on harness-side values.
func Norm(v any) any {
	switch v.(type) {
	case nil, bool, string, json.Number:
		return v
	}
	bts, err := json.Marshal(v)
	if err != nil {
		panic(fmt.Sprintf("ref.Norm: %v", err))
	}
	out, err := Parse(bts)
	if err != nil {
		panic(fmt.Sprintf("ref.Norm: %v", err))
	}
	return out
}

// Clone deep-copies a generic JSON value.
func Clone(v any) any {
	switch x := v.(type) {
	case map[string]any:
		m := make(map[string]any, len(x))
		for k, e := range x {
			m[k] = Clone(e)
		}
		return m
	case []any:
		s := make([]any, len(x))
		for i, e := range x {
			s[i] = Clone(e)
		}
		return s
	default:
		return v
	}
}
