package ref

import (
	"fmt"
	"math/big"
)

// OpKind is the Sidetree operation type.
type OpKind string

const (
	Create     OpKind = "create"
	Update     OpKind = "update"
	Recover    OpKind = "recover"
	Deactivate OpKind = "deactivate"
)

// Failure classes: exactly one per generated operation (DESIGN Appendix A.1).
const (
	FNone            = ""
	FUnparsable      = "unparsable"      // request bytes are not JSON / truncated
	FMissingMember   = "missing-member"  // suffix data / did suffix / signed data / reveal value absent
	FTypeConfusion   = "type-confusion"  // anchored type != shape of the request bytes
	FOwnTypeWrong    = "own-type-wrong"  // request's own "type" member altered, anchored type right (harmless)
	FBadSuffixData   = "bad-suffix-data" // create: hashes in suffix data not multihashes of a configured algorithm
	FBadSignedData   = "bad-signed-data" // not a 3-part JWS, header not alg/kid only, alg/curve not allowed, nonce size
	FRevealMismatch  = "reveal-mismatch" // reveal value != multihash(JCS(signing key))
	FBadSignature    = "bad-signature"   // signature does not verify under the embedded key
	FSuffixMismatch  = "signed-suffix-mismatch"
	FDeltaMissing    = "delta-missing"
	FDeltaHash       = "delta-hash-mismatch"
	FDeltaInvalid    = "delta-invalid"
	FWindowEarly     = "window-early" // decided from numbers, the label is informative only
	FWindowLate      = "window-late"
	FNotApplicable   = "patches-not-applicable" // decided by Compose, the label is informative only
	FBadNextRecovery = "bad-next-recovery"      // recover: signed recovery commitment not a multihash of a configured algorithm
)

// Truth is what the author of an operation meant plus the single labelled defect injected, as recorded by
// the harness when the bytes were produced (never re-derived from bytes with the code under test).
type Truth struct {
	Kind         OpKind // shape of the request bytes
	AnchoredKind OpKind // type the ledger stamped (differs only for FTypeConfusion)
	Fault        string
	// content
	Patches      []any  // delta patches as authored (generic JSON)
	UpdCommit    string // delta.updateCommitment as authored
	RecCommit    string // next recovery commitment as authored (create, recover)
	AnchorOrigin any    // create: suffix data; recover: signed data (nil = absent)
	From, Until  int64
	Suffix       string // did suffix named by the request
}

// AnchorMeta is the ledger's stamp.
type AnchorMeta struct {
	Time, Number, Version uint64
	Canonical             string
	Equivalent            []string
}

// OpID identifies an anchored operation object in the published / unpublished lists.
type OpID int

// State mirrors the 15 observable fields of a resolution model.
type State struct {
	Exists       bool // document present (possibly empty)
	Doc          map[string]any
	Created      uint64
	Updated      uint64
	LastTime     uint64
	LastNumber   uint64
	LastVersion  uint64
	UpdCommit    string
	RecCommit    string
	Deactivated  bool
	AnchorOrigin any
	Equivalent   []string
	Canonical    string
	VersionID    string
	Published    []OpID
	Unpublished  []OpID
}

// Verdict of one step.
type Verdict string

const (
	Refused  Verdict = "R"
	Applied  Verdict = "OK"
	Degraded Verdict = "D" // accepted, but the document was not installed / changed
)

// Config is the part of the protocol configuration the state machine depends on.
type Config struct {
	MaxTimeDelta uint64
}

// InWindow is the anchoring-window predicate of C09.
func InWindow(from, until int64, t uint64, delta uint64) bool {
	if from == 0 && until == 0 {
		return true
	}
	// exact integer arithmetic: none of from + delta, t, until need fit an int64
	bt := new(big.Int).SetUint64(t)
	u := big.NewInt(until)
	if until == 0 {
		u = new(big.Int).Add(big.NewInt(from), new(big.Int).SetUint64(delta))
	}
	return big.NewInt(from).Cmp(bt) <= 0 && bt.Cmp(u) <= 0
}

// DefaultUntil is the effective expiry and whether it is representable as an int64.
func DefaultUntil(from, until int64, delta uint64) (int64, bool) {
	if until != 0 || from == 0 {
		return until, true
	}
	u := new(big.Int).Add(big.NewInt(from), new(big.Int).SetUint64(delta))
	if !u.IsInt64() {
		return 0, false
	}
	return u.Int64(), true
}

// Step folds one anchored operation. prev is never modified.
func Step(cfg Config, prev *State, tr *Truth, am *AnchorMeta) (*State, Verdict, string) {
	kind := tr.AnchoredKind
	if kind == "" {
		kind = tr.Kind
	}
	// existence guards
	if kind == Create && prev.Exists {
		return nil, Refused, "create on existing state"
	}
	if kind != Create && !prev.Exists {
		return nil, Refused, "non-create on empty state"
	}
	switch tr.Fault {
	case FUnparsable, FMissingMember, FTypeConfusion, FBadSuffixData, FBadSignedData,
		FRevealMismatch, FBadSignature, FSuffixMismatch, FBadNextRecovery:
		return nil, Refused, tr.Fault
	}
	deltaBound := tr.Fault != FDeltaMissing && tr.Fault != FDeltaHash
	deltaValid := deltaBound && tr.Fault != FDeltaInvalid

	next := &State{
		Exists:      true,
		LastTime:    am.Time,
		LastNumber:  am.Number,
		LastVersion: am.Version,
		VersionID:   am.Canonical,
		Published:   prev.Published,
		Unpublished: prev.Unpublished,
	}
	switch kind {
	case Create, Recover:
		if kind == Create {
			next.Created = am.Time
		} else {
			next.Created = prev.Created
			next.Updated = am.Time
		}
		next.Canonical = am.Canonical
		next.Equivalent = am.Equivalent
		next.RecCommit = tr.RecCommit
		next.AnchorOrigin = tr.AnchorOrigin
		next.Doc = map[string]any{}
		if !deltaValid {
			return next, Degraded, "delta not bound or invalid"
		}
		next.UpdCommit = tr.UpdCommit
		if kind == Recover && !InWindow(tr.From, tr.Until, am.Time, cfg.MaxTimeDelta) {
			return next, Degraded, "out of window"
		}
		doc, err := Compose(map[string]any{}, tr.Patches)
		if err != nil {
			return next, Degraded, "not applicable: " + err.Error()
		}
		next.Doc = doc
		return next, Applied, ""
	case Update:
		if !deltaValid {
			return nil, Refused, "update delta not bound or invalid"
		}
		next.Created = prev.Created
		next.Updated = am.Time
		next.Canonical = prev.Canonical
		next.Equivalent = prev.Equivalent
		next.RecCommit = prev.RecCommit
		next.AnchorOrigin = prev.AnchorOrigin
		next.UpdCommit = tr.UpdCommit
		next.Doc = prev.Doc
		if !InWindow(tr.From, tr.Until, am.Time, cfg.MaxTimeDelta) {
			return next, Degraded, "out of window"
		}
		doc, err := Compose(prev.Doc, tr.Patches)
		if err != nil {
			return next, Degraded, "not applicable: " + err.Error()
		}
		next.Doc = doc
		return next, Applied, ""
	case Deactivate:
		if !InWindow(tr.From, tr.Until, am.Time, cfg.MaxTimeDelta) {
			return nil, Refused, "deactivate out of window"
		}
		next.Created = prev.Created
		next.Updated = am.Time
		next.Canonical = prev.Canonical
		next.Equivalent = prev.Equivalent
		next.AnchorOrigin = prev.AnchorOrigin
		next.Deactivated = true
		next.Doc = map[string]any{}
		return next, Applied, ""
	}
	panic(fmt.Sprintf("ref.Step: kind %q", kind))
}
