package ref

import (
	"encoding/base64"
	"encoding/json"
	"fmt"
	"math/big"
	"sort"
	"time"
)

// W3C context URLs (public constants of the DID / security-suite specifications).
const (
	CtxDID           = "https://www.w3.org/ns/did/v1"
	CtxDIDResolution = "https://w3id.org/did-resolution/v1"
)

var keyTypeContext = map[string]string{
	"Bls12381G2Key2020":                 "https://w3id.org/security/suites/bls12381-2020/v1",
	"JsonWebKey2020":                    "https://w3id.org/security/suites/jws-2020/v1",
	"EcdsaSecp256k1VerificationKey2019": "https://w3id.org/security/suites/secp256k1-2019/v1",
	"Ed25519VerificationKey2018":        "https://w3id.org/security/suites/ed25519-2018/v1",
	"Ed25519VerificationKey2020":        "https://w3id.org/security/suites/ed25519-2020/v1",
	"X25519KeyAgreementKey2019":         "https://w3id.org/security/suites/x25519-2019/v1",
}

var purposeMember = map[string]string{
	"authentication":       "authentication",
	"assertionMethod":      "assertionMethod",
	"keyAgreement":         "keyAgreement",
	"capabilityDelegation": "capabilityDelegation",
	"capabilityInvocation": "capabilityInvocation",
}

const b58Alphabet = "123456789ABCDEFGHJKLMNPQRSTUVWXYZabcdefghijkmnopqrstuvwxyz"

// Base58 is Bitcoin base58.
func Base58(b []byte) string {
	x := new(big.Int).SetBytes(b)
	base := big.NewInt(58)
	mod := new(big.Int)
	var out []byte
	for x.Sign() > 0 {
		x.DivMod(x, base, mod)
		out = append(out, b58Alphabet[mod.Int64()])
	}
	for _, c := range b {
		if c != 0 {
			break
		}
		out = append(out, b58Alphabet[0])
	}
	for i, j := 0, len(out)-1; i < j; i, j = i+1, j-1 {
		out[i], out[j] = out[j], out[i]
	}
	return string(out)
}

// ExternalDocument is the expected DID document for an internal document (C18): every key exactly once as a
// verification method, referenced from exactly the relationships named by its purposes, every service with a
// qualified id and all its members, the DID context plus one context per key type used.
func ExternalDocument(doc map[string]any, id string, base bool, methodCtx []string) (map[string]any, error) {
	out := map[string]any{"id": id}
	ctx := []any{CtxDID}
	for _, c := range methodCtx {
		ctx = append(ctx, c)
	}
	if base {
		ctx = append(ctx, map[string]any{"@base": id})
	}
	objectID := func(kid string) string {
		if base {
			return "#" + kid
		}
		return id + "#" + kid
	}
	if aka := list(doc[MAlsoKnownAs]); len(aka) > 0 {
		out["alsoKnownAs"] = aka
	}
	rel := map[string][]any{}
	var vms []any
	var keyCtx []string
	for _, k := range list(doc[MPublicKey]) {
		km, ok := k.(map[string]any)
		if !ok {
			continue
		}
		kid, _ := km["id"].(string)
		typ, _ := km["type"].(string)
		vm := map[string]any{"id": objectID(kid), "type": typ, "controller": id}
		if jwk, ok := km["publicKeyJwk"].(map[string]any); ok {
			switch typ {
			case "Ed25519VerificationKey2018", "Ed25519VerificationKey2020":
				xs, _ := jwk["x"].(string)
				raw, err := base64.RawURLEncoding.DecodeString(xs)
				if err != nil || len(raw) != 32 {
					return nil, fmt.Errorf("bad Ed25519 key material")
				}
				if typ == "Ed25519VerificationKey2018" {
					vm["publicKeyBase58"] = Base58(raw)
				} else {
					vm["publicKeyMultibase"] = "z" + Base58(raw)
				}
			default:
				vm["publicKeyJwk"] = jwk
			}
		} else if b58, ok := km["publicKeyBase58"].(string); ok && b58 != "" {
			vm["publicKeyBase58"] = b58
		} else if mb, ok := km["publicKeyMultibase"].(string); ok && mb != "" {
			vm["publicKeyMultibase"] = mb
		} else {
			vm["publicKeyJwk"] = nil
		}
		c, ok := keyTypeContext[typ]
		if !ok {
			return nil, fmt.Errorf("no context for key type %s", typ)
		}
		found := false
		for _, e := range keyCtx {
			if e == c {
				found = true
			}
		}
		if !found {
			keyCtx = append(keyCtx, c)
		}
		vms = append(vms, vm)
		for _, p := range list(km["purposes"]) {
			ps, _ := p.(string)
			if m, ok := purposeMember[ps]; ok {
				rel[m] = append(rel[m], objectID(kid))
			}
		}
	}
	if len(vms) > 0 {
		out["verificationMethod"] = vms
		for _, c := range keyCtx {
			ctx = append(ctx, c)
		}
	}
	for m, ids := range rel {
		out[m] = ids
	}
	out["@context"] = ctx
	var svcs []any
	for _, s := range list(doc[MService]) {
		sm, ok := s.(map[string]any)
		if !ok {
			continue
		}
		ext := map[string]any{}
		for k, v := range sm {
			ext[k] = v
		}
		sid, _ := sm["id"].(string)
		ext["id"] = objectID(sid)
		typ, _ := sm["type"].(string)
		ext["type"] = typ
		ext["serviceEndpoint"] = sm["serviceEndpoint"]
		svcs = append(svcs, ext)
	}
	if len(svcs) > 0 {
		out["service"] = svcs
	}
	return out, nil
}

// OpDesc describes an anchored operation handed to the transformer in an operation list.
type OpDesc struct {
	Type       string
	Request    []byte
	Time       uint64
	Number     uint64
	Version    uint64
	Canonical  string
	Equivalent []string
	Origin     any
}

// ResState is the part of a resolution model the metadata reports.
type ResState struct {
	UpdCommit, RecCommit string
	AnchorOrigin         any
	Deactivated          bool
	Created, Updated     uint64
	VersionID            string
	Published            []OpDesc
	Unpublished          []OpDesc
}

// SortOps orders operations by transaction time and then transaction number (anchoring order).
func SortOps(ops []OpDesc) []OpDesc {
	out := append([]OpDesc{}, ops...)
	sort.SliceStable(out, func(i, j int) bool {
		if out[i].Time != out[j].Time {
			return out[i].Time < out[j].Time
		}
		return out[i].Number < out[j].Number
	})
	return out
}

func rfc3339(t uint64) string { return time.Unix(int64(t), 0).UTC().Format(time.RFC3339) }

// Metadata is the expected document metadata. canonicalID / equivalentIDs are what the transformation info names
// ("" / nil when absent); published tells whether the document is published.
func Metadata(st *ResState, published bool, canonicalID string, equivalentIDs []string, incPub, incUnpub bool) map[string]any {
	method := map[string]any{"published": published}
	if st.RecCommit != "" {
		method["recoveryCommitment"] = st.RecCommit
	}
	if st.UpdCommit != "" {
		method["updateCommitment"] = st.UpdCommit
	}
	if st.AnchorOrigin != nil {
		method["anchorOrigin"] = st.AnchorOrigin
	}
	num := func(u uint64) json.Number { return json.Number(fmt.Sprint(u)) }
	if incUnpub && len(st.Unpublished) > 0 {
		var l []any
		for _, o := range SortOps(st.Unpublished) {
			e := map[string]any{"type": o.Type, "operation": base64.StdEncoding.EncodeToString(o.Request), "transactionTime": num(o.Time),
				"protocolVersion": num(o.Version)}
			if o.Origin != nil {
				e["anchorOrigin"] = o.Origin
			}
			l = append(l, e)
		}
		method["unpublishedOperations"] = l
	}
	if incPub && len(st.Published) > 0 {
		seen := map[string]bool{}
		var l []any
		for _, o := range SortOps(st.Published) {
			if seen[o.Canonical] {
				continue
			}
			seen[o.Canonical] = true
			e := map[string]any{"type": o.Type, "operation": base64.StdEncoding.EncodeToString(o.Request), "transactionTime": num(o.Time),
				"transactionNumber": num(o.Number), "protocolVersion": num(o.Version)}
			if o.Canonical != "" {
				e["canonicalReference"] = o.Canonical
			}
			if len(o.Equivalent) > 0 {
				eq := make([]any, len(o.Equivalent))
				for i, s := range o.Equivalent {
					eq[i] = s
				}
				e["equivalentReferences"] = eq
			}
			if o.Origin != nil {
				e["anchorOrigin"] = o.Origin
			}
			l = append(l, e)
		}
		method["publishedOperations"] = l
	}
	md := map[string]any{"method": method}
	if st.Deactivated {
		md["deactivated"] = true
	}
	if canonicalID != "" {
		md["canonicalId"] = canonicalID
	}
	if len(equivalentIDs) > 0 {
		eq := make([]any, len(equivalentIDs))
		for i, s := range equivalentIDs {
			eq[i] = s
		}
		md["equivalentId"] = eq
	}
	if published {
		md["created"] = rfc3339(st.Created)
	}
	if st.VersionID != "" {
		md["versionId"] = st.VersionID
		if st.Updated > 0 {
			md["updated"] = rfc3339(st.Updated)
		}
	}
	return md
}
