package ref

import (
	"strings"
	"crypto/sha256"
	"crypto/sha512"
	"encoding/base64"
	"fmt"
)

// Multihash codes (multiformats table).
const (
	SHA256 = 0x12
	SHA512 = 0x13
)

func rawHash(code uint, data []byte) []byte {
	switch code {
	case SHA256:
		h := sha256.Sum256(data)
		return h[:]
	case SHA512:
		h := sha512.Sum512(data)
		return h[:]
	}
	panic(fmt.Sprintf("ref: unsupported hash code %d", code))
}

func uvarint(x uint64) []byte {
	var out []byte
	for x >= 0x80 {
		out = append(out, byte(x)|0x80)
		x >>= 7
	}
	return append(out, byte(x))
}

// MultihashBytes = varint(code) || varint(len) || digest.
func MultihashBytes(code uint, digest []byte) []byte {
	out := uvarint(uint64(code))
	out = append(out, uvarint(uint64(len(digest)))...)
	return append(out, digest...)
}

// B64 is unpadded base64url.
func B64(b []byte) string { return base64.RawURLEncoding.EncodeToString(b) }

// UnB64 decodes unpadded base64url strictly.
func UnB64(s string) ([]byte, error) {
	// (Go's decoder, also in strict mode, skips CR and LF: they are not characters of the base64url alphabet - RFC 4648, 3.3)
	if strings.ContainsAny(s, "\r\n") {
		return nil, fmt.Errorf("illegal base64url data: line break")
	}
	return base64.RawURLEncoding.Strict().DecodeString(s)
}

// HashBytes returns the encoded multihash of data.
func HashBytes(code uint, data []byte) string {
	return B64(MultihashBytes(code, rawHash(code, data)))
}

// ModelHash is the encoded multihash of the RFC 8785 form of a JSON value.
func ModelHash(code uint, v any) string { return HashBytes(code, JCS(v)) }

// Reveal value of a JWK (generic JSON object).
func Reveal(code uint, jwk any) string { return ModelHash(code, jwk) }

// Commitment of a JWK: multihash(H(H(JCS(jwk)))) i.e. the multihash of the plain digest.
func Commitment(code uint, jwk any) string {
	return HashBytes(code, rawHash(code, JCS(jwk)))
}

// CommitmentFromReveal re-hashes the digest carried in an encoded multihash.
func CommitmentFromReveal(reveal string) (string, error) {
	code, digest, err := DecodeMultihash(reveal)
	if err != nil {
		return "", err
	}
	if code != SHA256 && code != SHA512 {
		return "", fmt.Errorf("unsupported code %d", code)
	}
	return HashBytes(code, digest), nil
}

// DecodeMultihash parses an encoded multihash; it insists on exact length.
func DecodeMultihash(s string) (uint, []byte, error) {
	// (non-zero trailing bits in the last character are tolerated, as RFC 4648 3.5 permits; characters outside the alphabet are not)
	if strings.ContainsAny(s, "\r\n") {
		return 0, nil, fmt.Errorf("illegal base64url data: line break")
	}
	b, err := base64.RawURLEncoding.DecodeString(s)
	if err != nil {
		return 0, nil, err
	}
	code, n := readUvarint(b)
	if n <= 0 {
		return 0, nil, fmt.Errorf("bad code varint")
	}
	b = b[n:]
	l, n := readUvarint(b)
	if n <= 0 {
		return 0, nil, fmt.Errorf("bad length varint")
	}
	b = b[n:]
	if uint64(len(b)) != l {
		return 0, nil, fmt.Errorf("length mismatch")
	}
	return uint(code), b, nil
}

func readUvarint(b []byte) (uint64, int) {
	var x uint64
	var s uint
	for i, c := range b {
		if i == 9 {
			return 0, -1
		}
		if c < 0x80 {
			if c == 0 && i > 0 {
				return 0, -1 // not minimally encoded (unsigned-varint: no redundant continuation bytes)
			}
			return x | uint64(c)<<s, i + 1
		}
		x |= uint64(c&0x7f) << s
		s += 7
	}
	return 0, 0
}
