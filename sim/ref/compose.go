package ref

import (
	"fmt"
	"strconv"
	"strings"
)

// Document member names (Sidetree internal document).
const (
	MPublicKey   = "publicKey"
	MService     = "service"
	MAlsoKnownAs = "alsoKnownAs"
)

// ComposeError carries a short witness class: which RFC 6902 rule made the list inapplicable.
type ComposeError struct{ Class, Detail string }

func (e *ComposeError) Error() string { return e.Class + ": " + e.Detail }

// Compose is the left fold of the per-action semantics over patches (generic JSON objects with an
// "action" member). The input document is not modified.
func Compose(doc map[string]any, patches []any) (map[string]any, error) {
	cur := Clone(doc).(map[string]any)
	for i, p := range patches {
		pm, ok := p.(map[string]any)
		if !ok {
			return nil, &ComposeError{"patch-not-object", fmt.Sprint(i)}
		}
		next, err := applyOne(cur, pm)
		if err != nil {
			return nil, err
		}
		cur = next
	}
	return cur, nil
}

func list(v any) []any {
	l, _ := v.([]any)
	return l
}

func idOf(v any) string {
	m, _ := v.(map[string]any)
	s, _ := m["id"].(string)
	return s
}

func applyOne(doc map[string]any, p map[string]any) (map[string]any, error) {
	action, _ := p["action"].(string)
	switch action {
	case "add-public-keys":
		doc[MPublicKey] = upsertByID(list(doc[MPublicKey]), list(p["publicKeys"]))
	case "add-services":
		doc[MService] = upsertByID(list(doc[MService]), list(p["services"]))
	case "remove-public-keys":
		doc[MPublicKey] = removeByID(list(doc[MPublicKey]), list(p["ids"]))
	case "remove-services":
		doc[MService] = removeByID(list(doc[MService]), list(p["ids"]))
	case "add-also-known-as":
		cur := list(doc[MAlsoKnownAs])
		out := append([]any{}, cur...)
		for _, u := range list(p["uris"]) {
			if !containsVal(out, u) {
				out = append(out, u)
			}
		}
		doc[MAlsoKnownAs] = out
	case "remove-also-known-as":
		rm := list(p["uris"])
		var out []any
		for _, u := range list(doc[MAlsoKnownAs]) {
			if !containsVal(rm, u) {
				out = append(out, u)
			}
		}
		doc[MAlsoKnownAs] = out
	case "replace":
		d, _ := p["document"].(map[string]any)
		nd := map[string]any{}
		nd[MPublicKey] = Clone(d["publicKeys"])
		nd[MService] = Clone(d["services"])
		return nd, nil
	case "ietf-json-patch":
		res, err := ApplyRFC6902(doc, list(p["patches"]))
		if err != nil {
			return nil, err
		}
		m, ok := res.(map[string]any)
		if !ok {
			return nil, &ComposeError{"root-not-object", ""}
		}
		return m, nil
	default:
		return nil, &ComposeError{"unknown-action", action}
	}
	return doc, nil
}

func containsVal(l []any, v any) bool {
	for _, e := range l {
		if Equal(e, v) {
			return true
		}
	}
	return false
}

func upsertByID(cur, add []any) []any {
	out := append([]any{}, cur...)
	for _, a := range add {
		id := idOf(a)
		found := false
		for i := range out {
			if idOf(out[i]) == id {
				out[i] = Clone(a)
				found = true
			}
		}
		if !found {
			out = append(out, Clone(a))
		}
	}
	return out
}

func removeByID(cur, ids []any) []any {
	var out []any
	for _, e := range cur {
		drop := false
		for _, id := range ids {
			if s, ok := id.(string); ok && s == idOf(e) {
				drop = true
			}
		}
		if !drop {
			out = append(out, e)
		}
	}
	return out
}

// ---------- RFC 6902 / RFC 6901 ----------

func pointerTokens(p string) ([]string, error) {
	if p == "" {
		return nil, nil
	}
	if p[0] != '/' {
		return nil, &ComposeError{"pointer-syntax", p}
	}
	parts := strings.Split(p[1:], "/")
	for i, t := range parts {
		t = strings.ReplaceAll(t, "~1", "/")
		t = strings.ReplaceAll(t, "~0", "~")
		parts[i] = t
	}
	return parts, nil
}

func arrayIndex(tok string, n int, allowEnd bool) (int, error) {
	if tok == "-" {
		if allowEnd {
			return n, nil
		}
		return 0, &ComposeError{"index-dash", tok}
	}
	if tok == "" || (len(tok) > 1 && tok[0] == '0') {
		return 0, &ComposeError{"index-syntax", tok}
	}
	for _, c := range tok {
		if c < '0' || c > '9' {
			return 0, &ComposeError{"index-syntax", tok}
		}
	}
	i, err := strconv.Atoi(tok)
	if err != nil {
		return 0, &ComposeError{"index-syntax", tok}
	}
	if i > n || (!allowEnd && i >= n) {
		return 0, &ComposeError{"index-range", tok}
	}
	return i, nil
}

// Lookup evaluates a JSON pointer.
func Lookup(doc any, pointer string) (any, error) {
	toks, err := pointerTokens(pointer)
	if err != nil {
		return nil, err
	}
	return getAt(doc, toks)
}

func getAt(doc any, toks []string) (any, error) {
	cur := doc
	for _, t := range toks {
		switch c := cur.(type) {
		case map[string]any:
			v, ok := c[t]
			if !ok {
				return nil, &ComposeError{"missing-member", t}
			}
			cur = v
		case []any:
			i, err := arrayIndex(t, len(c), false)
			if err != nil {
				return nil, err
			}
			cur = c[i]
		default:
			return nil, &ComposeError{"not-container", t}
		}
	}
	return cur, nil
}

// modify returns a copy of doc where the parent container addressed by toks[:len-1] has been
// edited by fn(parent, lastToken) -> newParent.
func modify(doc any, toks []string, fn func(parent any, tok string) (any, error)) (any, error) {
	if len(toks) == 1 {
		return fn(doc, toks[0])
	}
	switch c := doc.(type) {
	case map[string]any:
		child, ok := c[toks[0]]
		if !ok {
			return nil, &ComposeError{"missing-parent", toks[0]}
		}
		nc, err := modify(child, toks[1:], fn)
		if err != nil {
			return nil, err
		}
		c[toks[0]] = nc
		return c, nil
	case []any:
		i, err := arrayIndex(toks[0], len(c), false)
		if err != nil {
			return nil, err
		}
		nc, err := modify(c[i], toks[1:], fn)
		if err != nil {
			return nil, err
		}
		c[i] = nc
		return c, nil
	}
	return nil, &ComposeError{"not-container", toks[0]}
}

func addAt(doc any, toks []string, val any) (any, error) {
	if len(toks) == 0 {
		return Clone(val), nil
	}
	return modify(doc, toks, func(parent any, tok string) (any, error) {
		switch c := parent.(type) {
		case map[string]any:
			c[tok] = Clone(val)
			return c, nil
		case []any:
			i, err := arrayIndex(tok, len(c), true)
			if err != nil {
				return nil, err
			}
			out := append([]any{}, c[:i]...)
			out = append(out, Clone(val))
			out = append(out, c[i:]...)
			return out, nil
		}
		return nil, &ComposeError{"not-container", tok}
	})
}

func removeAt(doc any, toks []string) (any, error) {
	if len(toks) == 0 {
		return nil, &ComposeError{"remove-root", ""}
	}
	return modify(doc, toks, func(parent any, tok string) (any, error) {
		switch c := parent.(type) {
		case map[string]any:
			if _, ok := c[tok]; !ok {
				return nil, &ComposeError{"missing-member", tok}
			}
			delete(c, tok)
			return c, nil
		case []any:
			i, err := arrayIndex(tok, len(c), false)
			if err != nil {
				return nil, err
			}
			out := append([]any{}, c[:i]...)
			return append(out, c[i+1:]...), nil
		}
		return nil, &ComposeError{"not-container", tok}
	})
}

// ApplyRFC6902 applies a list of RFC 6902 operations to a copy of doc.
func ApplyRFC6902(doc any, ops []any) (any, error) {
	cur := Clone(doc)
	for i, o := range ops {
		op, ok := o.(map[string]any)
		if !ok {
			return nil, &ComposeError{"op-not-object", fmt.Sprint(i)}
		}
		kind, _ := op["op"].(string)
		path, ok := op["path"].(string)
		if !ok {
			return nil, &ComposeError{"path-missing", kind}
		}
		toks, err := pointerTokens(path)
		if err != nil {
			return nil, err
		}
		val, hasVal := op["value"]
		var fromToks []string
		if kind == "move" || kind == "copy" {
			from, ok := op["from"].(string)
			if !ok {
				return nil, &ComposeError{"from-missing", kind}
			}
			if fromToks, err = pointerTokens(from); err != nil {
				return nil, err
			}
		}
		switch kind {
		case "add":
			if !hasVal {
				return nil, &ComposeError{"value-missing", kind}
			}
			cur, err = addAt(cur, toks, val)
		case "remove":
			cur, err = removeAt(cur, toks)
		case "replace":
			if !hasVal {
				return nil, &ComposeError{"value-missing", kind}
			}
			if _, err = getAt(cur, toks); err == nil {
				if len(toks) == 0 {
					cur = Clone(val)
				} else if cur, err = removeAt(cur, toks); err == nil {
					cur, err = addAt(cur, toks, val)
				}
			}
		case "move":
			var v any
			if v, err = getAt(cur, fromToks); err == nil {
				if isPrefix(fromToks, toks) && len(toks) > len(fromToks) {
					err = &ComposeError{"move-into-self", path}
				} else if cur, err = removeAt(cur, fromToks); err == nil {
					cur, err = addAt(cur, toks, v)
				}
			}
		case "copy":
			var v any
			if v, err = getAt(cur, fromToks); err == nil {
				cur, err = addAt(cur, toks, v)
			}
		case "test":
			if !hasVal {
				return nil, &ComposeError{"value-missing", kind}
			}
			var v any
			if v, err = getAt(cur, toks); err == nil && !Equal(v, val) {
				err = &ComposeError{"test-failed", path}
			}
		default:
			err = &ComposeError{"unknown-op", kind}
		}
		if err != nil {
			if ce, ok := err.(*ComposeError); ok {
				return nil, &ComposeError{kind + "/" + ce.Class, ce.Detail}
			}
			return nil, err
		}
	}
	return cur, nil
}

func isPrefix(a, b []string) bool {
	if len(a) > len(b) {
		return false
	}
	for i := range a {
		if a[i] != b[i] {
			return false
		}
	}
	return true
}

// View returns the normalised publicKey / service / alsoKnownAs lists (nil, absent and [] are the same
// empty list: the property fixes entries, not the spelling of an empty list).
func View(doc map[string]any, member string) []any {
	l := list(doc[member])
	if l == nil {
		return []any{}
	}
	return l
}

// NormDoc returns a copy of doc in which the three list members are spelled canonically: dropped when empty.
func NormDoc(doc map[string]any) map[string]any {
	out := Clone(doc).(map[string]any)
	for _, m := range []string{MPublicKey, MService, MAlsoKnownAs} {
		v, ok := out[m]
		if !ok {
			continue
		}
		if v == nil {
			delete(out, m)
		} else if l, isList := v.([]any); isList && len(l) == 0 {
			delete(out, m)
		}
	}
	return out
}

// DocEqual compares two documents up to the spelling of empty key/service/also-known-as lists.
func DocEqual(a, b map[string]any) bool {
	if a == nil || b == nil {
		return a == nil && b == nil
	}
	return Equal(NormDoc(a), NormDoc(b))
}

// Quirks walks an RFC 6902 list with the reference semantics and names the conditions under which RFC 6902
// libraries are known to deviate (used only to label a divergence, never to excuse one).
func Quirks(doc any, ops []any) []string {
	var out []string
	add := func(s string) {
		for _, e := range out {
			if e == s {
				return
			}
		}
		out = append(out, s)
	}
	cur := Clone(doc)
	var copied [][]string // pointers that may share structure after a copy
	// array indices shift when a sibling is removed or inserted: an index token stands for any element of its array
	related := func(a, b []string) bool { return isPrefixWild(a, b) || isPrefixWild(b, a) }
	for _, o := range ops {
		op, _ := o.(map[string]any)
		kind, _ := op["op"].(string)
		path, _ := op["path"].(string)
		toks, err := pointerTokens(path)
		if err != nil {
			add("pointer-syntax")
			break
		}
		for _, c := range copied {
			if related(c, toks) {
				add("edit-after-copy")
			}
		}
		if kind == "replace" || kind == "test" || kind == "remove" {
			target, gerr := getAt(cur, toks)
			if gerr != nil {
				add(kind + "-missing-target")
			}
			if kind == "test" && (hasNull(target) || hasNull(op["value"])) {
				add("test-null")
			}
			if kind == "test" && (isContainer(target) || isContainer(op["value"])) {
				add("test-container")
			}
		}
		if kind == "copy" || kind == "move" {
			from, _ := op["from"].(string)
			ft, ferr := pointerTokens(from)
			if ferr != nil {
				add("pointer-syntax")
				break
			}
			if _, gerr := getAt(cur, ft); gerr != nil {
				add(kind + "-missing-from")
			}
			if isPrefix(ft, toks) && len(toks) > len(ft) {
				add(kind + "-into-own-source")
			}
			for _, c := range copied {
				if related(c, ft) {
					add("edit-after-copy")
				}
			}
			if kind == "copy" {
				copied = append(copied, ft, toks)
			}
			if len(toks) > 0 {
				// the target location of a move is evaluated after its source was removed
				at := cur
				if kind == "move" {
					if removed, rerr := ApplyRFC6902(cur, []any{map[string]any{"op": "remove", "path": from}}); rerr == nil {
						at = removed
					}
				}
				if parent, perr := getAt(at, toks[:len(toks)-1]); perr == nil {
					if _, isArr := parent.([]any); isArr {
						add(kind + "-to-array-element")
					}
				}
			}
		}
		next, aerr := ApplyRFC6902(cur, []any{o})
		if aerr != nil {
			continue // a deviating library may carry on; keep labelling the remaining operations
		}
		cur = next
	}
	return out
}

// isPrefixWild is isPrefix with array-index tokens (decimal numbers and "-") matching each other.
func isPrefixWild(a, b []string) bool {
	if len(a) > len(b) {
		return false
	}
	for i := range a {
		if a[i] != b[i] && !(isIndexToken(a[i]) && isIndexToken(b[i])) {
			return false
		}
	}
	return true
}

func isIndexToken(t string) bool {
	if t == "-" {
		return true
	}
	if t == "" {
		return false
	}
	for _, c := range t {
		if c < '0' || c > '9' {
			return false
		}
	}
	return true
}

func hasNull(v any) bool {
	switch x := v.(type) {
	case nil:
		return true
	case map[string]any:
		for _, e := range x {
			if hasNull(e) {
				return true
			}
		}
	case []any:
		for _, e := range x {
			if hasNull(e) {
				return true
			}
		}
	}
	return false
}

func isContainer(v any) bool {
	switch v.(type) {
	case map[string]any, []any:
		return true
	}
	return false
}
