package sim

import (
	"math"
	"fmt"
	"strings"

	"github.com/trustbloc/sidetree-go/pkg/commitment"

	"verif/sim/ref"
)

// Expectation is the reference model's prediction for one anchored operation of a DID.
type Expectation struct {
	Rec           *AnchoredRec
	Skipped       bool // after an accepted deactivate the history has ended
	Eligible      bool // chain mode: commitment/reveal matching lets it through
	EligibleKnown bool
	Verdict       ref.Verdict
	Why           string
	State         *ref.State // state in force after this operation
	Prev          *ref.State // state in force before it
	Tag           string     // distinguishes derived expectations (the same operation anchored at another time) in reports
}

type didModel struct {
	suffix   string
	exps     []*Expectation
	cur      *ref.State
	stopped  bool
	sig      []string
	accepted int
}

// ModelTracker folds the ledger (ground truth: what was anchored, what each operation really is) through the
// reference state machine.
type ModelTracker struct {
	w     *World
	Ops   []*BuiltOp
	dids  map[string]*didModel
	order []string
}

func newModelTracker(w *World) *ModelTracker {
	return &ModelTracker{w: w, dids: map[string]*didModel{}}
}

// parseFails lists the classes for which batch-mode parsing of the request fails, so that a processor
// cannot even extract a reveal value.
func parseFails(fault string) bool {
	switch fault {
	case ref.FUnparsable, ref.FMissingMember, ref.FBadSignedData, ref.FRevealMismatch, ref.FSuffixMismatch,
		ref.FBadNextRecovery, ref.FBadSuffixData:
		return true
	}
	return false
}

// Anchored is called by the ledger, in ledger order.
func (m *ModelTracker) Anchored(rec *AnchoredRec) {
	suffix := rec.Op.UniqueSuffix
	d, ok := m.dids[suffix]
	if !ok {
		d = &didModel{suffix: suffix, cur: &ref.State{}}
		m.dids[suffix] = d
		m.order = append(m.order, suffix)
	}
	exp := &Expectation{Rec: rec, State: d.cur, Prev: d.cur}
	d.exps = append(d.exps, exp)
	if d.stopped {
		exp.Skipped = true
		return
	}
	tr := &rec.Built.Truth
	if m.w.Plan.Swarm.ChainMode {
		exp.EligibleKnown = tr.Fault != ref.FTypeConfusion && tr.Fault != ref.FOwnTypeWrong
		switch {
		case tr.AnchoredKind == ref.Create:
			exp.Eligible = !d.cur.Exists
		case !d.cur.Exists || parseFails(tr.Fault):
			exp.Eligible = false
		case tr.AnchoredKind == ref.Update:
			exp.Eligible = d.cur.UpdCommit != "" && rec.Built.RevealCommit == d.cur.UpdCommit
		default:
			exp.Eligible = d.cur.RecCommit != "" && rec.Built.RevealCommit == d.cur.RecCommit
		}
		if !exp.Eligible {
			d.sig = append(d.sig, fmt.Sprintf("%s:%s:filtered", tr.AnchoredKind, faultName(tr.Fault)))
			return
		}
	}
	m.windowProbes(tr, &rec.Meta)
	next, verdict, why := ref.Step(m.w.RefCfg, d.cur, tr, &rec.Meta)
	if tr.From != 0 || tr.Until != 0 {
		m.w.T.Count("window_points_checked", 1)
		cmp := func(a, b int64) int {
			switch {
			case a < b:
				return -1
			case a > b:
				return 1
			}
			return 0
		}
		t := int64(rec.Meta.Time)
		dflt := 1 // from + delta beyond every int64
		if du, ok := ref.DefaultUntil(tr.From, 0, m.w.RefCfg.MaxTimeDelta); ok {
			dflt = cmp(du, t)
		}
		extreme := tr.From == math.MinInt64 || tr.From == math.MaxInt64 || tr.Until == math.MinInt64 || tr.Until == math.MaxInt64
		m.w.T.Mark(fmt.Sprintf("win:%s:%d:%d:%d:%v:%v:%v:%s", tr.AnchoredKind, cmp(tr.From, t), cmp(tr.Until, t), dflt,
			tr.From == 0, tr.Until == 0, extreme, verdict))
		if extreme {
			m.w.T.Probe("window_int64_extreme")
		}
	}
	exp.Verdict, exp.Why = verdict, why
	d.sig = append(d.sig, fmt.Sprintf("%s:%s:%s", tr.AnchoredKind, faultName(tr.Fault), verdict))
	if verdict != ref.Refused {
		d.cur = next
		d.accepted++
		exp.State = next
		if next.Deactivated {
			d.stopped = true
		}
		if verdict == ref.Degraded {
			m.w.T.Probe("degraded_" + string(tr.AnchoredKind))
		}
	}
}

func (m *ModelTracker) Expect(suffix string, pos int) *Expectation {
	d := m.dids[suffix]
	if d == nil || pos >= len(d.exps) {
		return nil
	}
	return d.exps[pos]
}

// StateAt returns the model state in force after the first n anchored operations of the DID.
func (m *ModelTracker) StateAt(suffix string, n int) *ref.State {
	d := m.dids[suffix]
	if d == nil || n == 0 || n > len(d.exps) {
		return nil
	}
	return d.exps[n-1].State
}

func (m *ModelTracker) Final(suffix string) *ref.State {
	if d := m.dids[suffix]; d != nil {
		return d.cur
	}
	return nil
}

func (m *ModelTracker) finalChecks() {
	w := m.w
	for _, s := range m.order {
		d := m.dids[s]
		if d.accepted > 0 {
			w.T.Mark("hist:" + strings.Join(d.sig, ","))
		}
		if w.CheckChain {
			m.checkChain(d)
		}
	}
}

// checkChain is the C04(b) oracle over the recorded ledger: along every chain the model accepted, the reveal
// value the parser reports for an operation maps to the commitment it reports for its predecessor.
func (m *ModelTracker) checkChain(d *didModel) {
	w := m.w
	var updPred, recPred *AnchoredRec
	for _, exp := range d.exps {
		// a recover by the committed key whose delta alone is bad (missing, not hash-bound, invalid) stays a chain link
		member := exp.Rec.Built.Honest
		if f := exp.Rec.Built.Truth.Fault; !member && exp.Verdict == ref.Degraded && exp.Rec.Built.Truth.Kind == ref.Recover &&
			(f == ref.FDeltaMissing || f == ref.FDeltaHash || f == ref.FDeltaInvalid) {
			member = true
			w.T.Probe("chain_degraded_recover_link")
		}
		if exp.Skipped || exp.Verdict == "" || exp.Verdict == ref.Refused || !member {
			if exp.Verdict != "" && exp.Verdict != ref.Refused && !member {
				// a hostile but accepted operation re-bases the chain; predecessors are unknown to this oracle
				updPred, recPred = nil, nil
				if exp.State.UpdCommit != "" && exp.Rec.Built.Truth.Kind != ref.Deactivate {
					// keep going only along honest links
				}
			}
			continue
		}
		rec := exp.Rec
		kind := rec.Built.Truth.Kind
		bytes := rec.Op.OperationRequest
		if kind != ref.Create {
			pred := updPred
			if kind != ref.Update {
				pred = recPred
			}
			rv, err := w.Parser.GetRevealValue(bytes)
			if err != nil {
				w.violate("C04/chain/get-reveal", string(kind), "GetRevealValue failed on an accepted honest %s: %v", kind, err)
			} else {
				w.T.Count("chain_links_checked", 1)
				c, cerr := commitment.GetCommitmentFromRevealValue(rv)
				if cerr != nil {
					w.violate("C04/chain/commitment-from-reveal", string(kind), "%v", cerr)
				}
				if rv != rec.Built.RevealValue {
					w.violate("C04/chain/reveal-value", string(kind), "parser reports reveal %s, reference %s", rv, rec.Built.RevealValue)
				}
				if c != rec.Built.RevealCommit {
					w.violate("C04/chain/reveal-to-commitment", string(kind), "commitment from reveal %s, reference %s", c, rec.Built.RevealCommit)
				}
				if pred != nil {
					pc, perr := m.predecessorCommitment(pred, kind)
					if perr != nil {
						w.violate("C04/chain/predecessor", string(kind), "%v", perr)
					} else if pc != c {
						w.violate("C04/chain/link", string(pred.Built.Truth.Kind)+"->"+string(kind),
							"reveal of op%d maps to %s but predecessor op%d commits to %s", rec.Built.ID, c, pred.Built.ID, pc)
					}
				}
			}
		}
		nc, err := w.Parser.GetCommitment(bytes)
		switch kind {
		case ref.Create:
			if err == nil {
				w.violate("C04/chain/create-commitment", "", "GetCommitment on a create must not succeed")
			}
			updPred, recPred = rec, rec
		case ref.Update:
			if err != nil || nc != rec.Built.Truth.UpdCommit {
				w.violate("C04/chain/next-commitment", "update", "GetCommitment=%q err=%v, want %q", nc, err, rec.Built.Truth.UpdCommit)
			}
			updPred = rec
		case ref.Recover:
			if err != nil || nc != rec.Built.Truth.RecCommit {
				w.violate("C04/chain/next-commitment", "recover", "GetCommitment=%q err=%v, want %q", nc, err, rec.Built.Truth.RecCommit)
			}
			updPred, recPred = rec, rec
		case ref.Deactivate:
			if err != nil || nc != "" {
				w.violate("C04/chain/next-commitment", "deactivate", "GetCommitment=%q err=%v, want \"\"", nc, err)
			}
			updPred, recPred = nil, nil
		}
		if exp.Verdict == ref.Degraded && (kind == ref.Create || kind == ref.Recover) && exp.State.UpdCommit == "" {
			updPred = nil
		}
	}
}

// predecessorCommitment extracts, with the parser only, the commitment pred makes towards a successor of kind next.
func (m *ModelTracker) predecessorCommitment(pred *AnchoredRec, next ref.OpKind) (string, error) {
	w := m.w
	pk := pred.Built.Truth.Kind
	if (pk == ref.Update && next == ref.Update) || (pk == ref.Recover && next != ref.Update) {
		return w.Parser.GetCommitment(pred.Op.OperationRequest)
	}
	op, err := w.Parser.ParseOperation(w.Plan.Swarm.Namespace, pred.Op.OperationRequest, true)
	if err != nil {
		return "", fmt.Errorf("predecessor does not parse: %w", err)
	}
	if next == ref.Update {
		if op.Delta == nil {
			return "", fmt.Errorf("predecessor has no delta")
		}
		return op.Delta.UpdateCommitment, nil
	}
	if op.SuffixData == nil {
		return "", fmt.Errorf("predecessor has no suffix data")
	}
	return op.SuffixData.RecoveryCommitment, nil
}

// windowProbes counts the boundary equalities that were actually hit.
func (m *ModelTracker) windowProbes(tr *ref.Truth, am *ref.AnchorMeta) {
	if tr.From == 0 && tr.Until == 0 {
		return
	}
	t := int64(am.Time)
	if tr.From == t {
		m.w.T.Probe("window_t_eq_from")
	}
	if tr.Until == t {
		m.w.T.Probe("window_t_eq_until")
	}
	if du, ok := ref.DefaultUntil(tr.From, 0, m.w.RefCfg.MaxTimeDelta); tr.Until == 0 && ok && du == t {
		m.w.T.Probe("window_t_eq_from_plus_delta")
	}
}
