package sim

import (
	"math"

	"verif/sim/core"
	"verif/sim/ref"
)

// C09 — anchoring window grid (DESIGN A.3). One case = one drawn protocol configuration x one operation type x
// one (from, until) grid point placed around the anchoring time the ledger will stamp.

var windowKinds = []ref.OpKind{ref.Update, ref.Recover, ref.Deactivate}

const (
	windowFroms  = 11
	windowUntils = 8
	windowGrid   = 3 * windowFroms * windowUntils
	// WindowVariants is the number of grid points per configuration: the grid around t plus the int64 corner pairs.
	WindowVariants = windowGrid + 3*windowCorners
	windowCorners  = 26
)

// windowCorner is the i-th (from, until) pair at the edges of the int64 range (0 = absent), for anchoring time t and default
// lifetime delta: places where from + delta, until - t or t - from leave the range if computed carelessly, and integers
// beyond 2^53 that a float64 round trip would change.
func windowCorner(i int, t, delta int64) (from, until int64) {
	const minI, maxI, big = math.MinInt64, math.MaxInt64, int64(1)<<53 + 1
	pairs := [windowCorners][2]int64{
		{0, minI}, {0, minI + t - 1}, {0, minI + t}, {0, minI + t + 1}, {0, maxI}, {0, maxI - 1}, {0, big}, {0, -big},
		{minI, 0}, {minI, minI}, {minI, t}, {minI, maxI}, {minI + 1, 0}, {minI + t - 1 - delta, 0}, {minI + t - delta, 0},
		{-5, minI + 1}, {-big, 0}, {-big, t}, {t, maxI}, {big, 0}, {big, maxI}, {maxI, 0}, {maxI, maxI}, {maxI - delta, 0},
		{maxI - delta + 1, 0}, {t - delta, maxI},
	}
	return pairs[i][0], pairs[i][1]
}

// GenWindow builds the plan for (seed, variant).
func GenWindow(seed uint64, variant int, pool *Pool) *Plan {
	r := core.NewRNG(seed).Stream("gen/C09")
	p := &Plan{Property: "C09", Profile: "window-grid", Seed: seed, CryptoSeed: core.NewRNG(seed).Stream("crypto").Uint64()}
	p.Swarm = GenSwarm(r.Stream("swarm"), pool)
	s := &p.Swarm
	s.Observers = 1
	s.Patches = append([]string{}, allActions...)
	if rs := core.NewRNG(seed ^ uint64(variant)*0x9e37).Stream("soak"); rs.Chance(1, 40) {
		s.Soak = 1050 + rs.Intn(700)
	}
	s.FarFuture = true
	kind := windowKinds[variant%3]
	fi := (variant / 3) % windowFroms
	ui := (variant / (3 * windowFroms)) % windowUntils
	corner := -1
	if variant >= windowGrid {
		corner, fi, ui = (variant-windowGrid)/3, 0, 0
	}

	d := &genDID{}
	create := opStep(r, pool, s, d, ref.Create, ref.FNone, false)
	create.Via = "direct"
	p.Steps = append(p.Steps, create, Step{Op: STick, Secs: s.BlockInterval * 2})
	if r.Chance(1, 3) {
		// clock skew / jump of the ledger: the anchoring time moves, the model follows the stamp
		p.Steps = append(p.Steps, Step{Op: SClockJump, Actor: "ledger", Secs: int64(r.Range(-3, 40))})
	}
	skew := int64(0)
	for _, st := range p.Steps {
		if st.Op == SClockJump {
			skew += st.Secs
		}
	}
	// the operation is submitted at now = 2*BI and anchored at the next block boundary
	t := Epoch + 3*s.BlockInterval + skew
	delta := int64(s.TimeDelta)
	var from int64
	switch fi {
	case 0:
		from = 0
	case 1:
		from = t - delta - 1
	case 2:
		from = t - delta
	case 3:
		from = t - delta + 1
	case 4:
		from = t - 1
	case 5:
		from = t
	case 6:
		from = t + 1
	case 7: // negative from: the default expiry from + delta is 0 / negative / barely positive - always before t
		from = -delta
	case 8:
		from = -delta - 1
	case 9:
		from = -delta + 1
	case 10:
		from = -1
	}
	var until int64
	switch ui {
	case 0:
		until = 0
	case 1:
		until = from - 1
	case 2:
		until = t - 1
	case 3:
		until = t
	case 4:
		until = t + 1
	case 5:
		until = from + delta - 1
	case 6:
		until = from + delta
	case 7:
		until = from + delta + 1
	}
	if from == 0 && (ui == 1 || ui >= 5) {
		// grid points defined relative to from do not exist without from: use distinct absolute expiries instead
		until = t + int64(ui)*1000
	}
	if corner >= 0 {
		from, until = windowCorner(corner, t, delta)
	}
	op := opStep(r, pool, s, d, kind, ref.FNone, false)
	op.HasFrom, op.HasUntil, op.Abs = from != 0, until != 0, true
	op.From, op.Until = from, until
	if op.Until < 0 && corner < 0 {
		op.Until, op.HasUntil = 0, false
	}
	op.Via = "both"
	op.Builder = core.Pick(r, []string{"raw", "lib"})
	if corner >= 0 {
		// the library's builders canonicalise through float64 and cannot express integers beyond 2^53
		op.Builder = "raw"
	}
	p.Steps = append(p.Steps, op, Step{Op: STick, Secs: s.BlockInterval * 2})
	if kind != ref.Deactivate {
		// a follow-up update shows that the commitment advanced although the window was missed
		next := opStep(r, pool, s, d, ref.Update, ref.FNone, false)
		next.Via = "direct"
		next.HasFrom, next.HasUntil = false, false
		p.Steps = append(p.Steps, next)
	}
	return p
}

func init() {
	register(&Property{
		ID: "C09", Level: "fault_enumeration", EvalCounter: "window_points_checked",
		Rule: "per drawn protocol configuration (every numeric limit from its own disjoint range, ledger clock skew / jumps): 3 operation types x 7 from-points x 8 " +
			"until-points placed around the anchoring time the ledger stamps (all orderings and equalities of from, until, t, from+delta) plus 3 x 26 (from, until) pairs at the edges of " +
			"the int64 range and beyond 2^53 (where from+delta, until-t, t-from leave the range if computed carelessly; reference predicate in exact integer arithmetic); each point goes through the " +
			"intake (recording time validator: exact (from, until) arguments) and through Apply (verdict + all fields vs the reference window predicate). " +
			"distinct_nontrivial = distinct (type, sign(from-t), sign(until-t), sign(from+delta-t), from==0, until==0, verdict) tuples",
		Cases: func(master uint64, tier string) []Case {
			n := 24
			if tier == "thorough" {
				n = 2000
			}
			return seqCases(master, n, func(int) int { return WindowVariants })
		},
		Gen:            func(c Case, pool *Pool) *Plan { return GenWindow(c.Seed, c.Variant, pool) },
		RequiredProbes: map[string][]string{"quick": {"window_t_eq_from", "window_t_eq_until", "window_t_eq_from_plus_delta", "window_int64_extreme", "soak", "window_anchoring_time_beyond_int64"}, "thorough": {"window_t_eq_from", "window_t_eq_until", "window_t_eq_from_plus_delta", "window_int64_extreme"}},
		Components:     worldComponents,
		Assumptions:    worldAssumptions,
	})
}
