//go:build simrt && race

package sim

import (
	"encoding/json"
	"fmt"
	"sort"
	"strings"
	"sync"

	"github.com/anishathalye/porcupine"
	vdrapi "github.com/trustbloc/did-go/vdr/api"

	"github.com/trustbloc/sidetree-go/pkg/api/operation"
	"github.com/trustbloc/sidetree-go/pkg/api/protocol"
	"github.com/trustbloc/sidetree-go/pkg/document"
	"github.com/trustbloc/sidetree-go/pkg/docutil"
	"github.com/trustbloc/sidetree-go/pkg/simrt"
	"github.com/trustbloc/sidetree-go/pkg/vdr/sidetreelongform"
	"github.com/trustbloc/sidetree-go/pkg/vdr/sidetreelongform/dochandler"
	"github.com/trustbloc/sidetree-go/pkg/vdr/sidetreelongform/dochandler/protocol/nsprovider"
	"github.com/trustbloc/sidetree-go/pkg/vdr/sidetreelongform/dochandler/protocol/verprovider"
	"github.com/trustbloc/sidetree-go/pkg/vdr/sidetreelongform/dochandler/protocolversion/clientregistry"
	vcommon "github.com/trustbloc/sidetree-go/pkg/vdr/sidetreelongform/dochandler/protocolversion/versions/common"
	"github.com/trustbloc/sidetree-go/pkg/versions/1_0/doctransformer/didtransformer"
	"github.com/trustbloc/sidetree-go/pkg/versions/1_0/operationparser"

	"verif/sim/core"
	"verif/sim/ref"
)

// fakeFactory is a protocol-version factory whose product names the factory (registry model of DESIGN A.4).
type fakeFactory struct{ id string }

func (f *fakeFactory) Create(version string, _ *vcommon.ProtocolConfig) (protocol.Version, error) {
	return &vcommon.ProtocolVersion{VersionStr: f.id}, nil
}

type fakeCVP struct{ id string }

func (f *fakeCVP) Current() (protocol.Version, error) {
	return &vcommon.ProtocolVersion{VersionStr: f.id}, nil
}
func (f *fakeCVP) Get(uint64) (protocol.Version, error) {
	return &vcommon.ProtocolVersion{VersionStr: f.id}, nil
}

// concShared are the component instances shared by all tasks of a run.
type concShared struct {
	w         *World
	handler   *dochandler.DocumentHandler
	vdr       *sidetreelongform.VDR
	transform *didtransformer.Transformer
	ingress   *operationparser.Parser // non-batch parsing (the world's batch-side parser refuses every time validation)
	nsp       *nsprovider.Provider
	reg       *clientregistry.Registry
	verp      *verprovider.ClientVersionProvider
	// inputs
	requests  [][]byte
	anchored  []*operation.AnchoredOperation
	updates   []*operation.AnchoredOperation // second operation of each DID (signed)
	updCreate []*operation.AnchoredOperation // the create each update follows (cold runs derive the state inside the task)
	states    []*protocol.ResolutionModel    // state of each DID after its create
	state     *protocol.ResolutionModel
	docs      []map[string]any
	patchSets [][]any
	longDIDs  []string
	createLF  [][]byte
	didDocs   []map[string]any
}

func (w *World) newConcShared(stepSeed string) *concShared {
	c := &concShared{w: w}
	r := core.NewRNG(w.Plan.Seed).Stream("c20/inputs/" + stepSeed)
	var err error
	if c.handler, err = dochandler.New("did:ion"); err != nil {
		panic("harness: " + err.Error())
	}
	if c.vdr, err = sidetreelongform.New(); err != nil {
		panic("harness: " + err.Error())
	}
	c.ingress = operationparser.New(w.Proto)
	c.transform = didtransformer.New(didtransformer.WithBase(true), didtransformer.WithIncludePublishedOperations(true))
	c.nsp = nsprovider.New()
	c.reg = clientregistry.New()
	c.verp, err = verprovider.New([]protocol.Version{w.protocolVersion()})
	if err != nil {
		panic("harness: " + err.Error())
	}
	s := w.Plan.Swarm
	wl := w.wallet(0)
	// distinct operations of distinct DIDs
	for i := 0; i < 10; i++ {
		d := &genDID{did: 100 + i}
		cst := opStep(r, w.Pool, &s, d, ref.Create, ref.FNone, true)
		cst.Builder = "raw"
		cop := wl.build(0, &cst)
		if cop == nil {
			continue
		}
		c.requests = append(c.requests, cop.Bytes)
		c.anchored = append(c.anchored, &operation.AnchoredOperation{Type: operation.TypeCreate, UniqueSuffix: cop.Truth.Suffix, OperationRequest: cop.Bytes, TransactionTime: uint64(Epoch + int64(i))})
		ust := opStep(r, w.Pool, &s, d, core.Pick(r, []ref.OpKind{ref.Update, ref.Recover, ref.Deactivate}), ref.FNone, true)
		ust.Builder, ust.HasFrom, ust.HasUntil = "raw", false, false
		if uop := wl.build(0, &ust); uop != nil {
			c.requests = append(c.requests, uop.Bytes)
			upd := &operation.AnchoredOperation{Type: operation.Type(uop.Truth.Kind), UniqueSuffix: uop.Truth.Suffix,
				OperationRequest: uop.Bytes, TransactionTime: uint64(Epoch + 100 + int64(i))}
			if s.Cold {
				c.updates, c.updCreate = append(c.updates, upd), append(c.updCreate, c.anchored[len(c.anchored)-1])
			} else if st0, aerr := w.Applier.Apply(c.anchored[len(c.anchored)-1], &protocol.ResolutionModel{}); aerr == nil {
				c.states = append(c.states, st0)
				c.updates = append(c.updates, upd)
			}
		}
		var other []string
		doc, cerr := ref.Compose(map[string]any{}, resolveForGen(w.Pool, genSetup(r, w.Pool, &s)))
		if cerr == nil {
			c.docs = append(c.docs, doc)
			basic := Swarm{Patches: []string{"add-public-keys", "remove-public-keys", "add-services", "remove-services", "add-also-known-as", "remove-also-known-as", "replace"}}
			ps := resolveForGen(w.Pool, genPatches(r, w.Pool, &basic, 3, &other))
			if rj := r.Stream("ietf"); rj.Chance(2, 3) {
				// RFC 6902 lists too: ordinary ones, and ones on which the RFC 6902 library panics (the composer turns the panic into an
				// error: whatever it holds at that moment - buffers, pooled objects - is released on an unusual path)
				ps = append(ps, map[string]any{"action": "ietf-json-patch", "patches": genRFC6902Clean(rj, doc)})
				if rj.Chance(1, 2) {
					boom := core.Pick(rj, [][]any{
						{map[string]any{"op": "add", "path": "/tags", "value": []any{"t1", "t2"}}, map[string]any{"op": "replace", "path": "/tags/-1", "value": "boom"}},
						{map[string]any{"op": "add", "path": "/n0", "value": "x"}, map[string]any{"op": "test", "path": "/n0", "value": nil}},
						{map[string]any{"op": "add", "path": "/tags", "value": []any{"t1"}}, map[string]any{"op": "remove", "path": "/tags/-1"}},
					})
					k := rj.Intn(len(ps) + 1)
					ps = append(ps[:k:k], append([]any{map[string]any{"action": "ietf-json-patch", "patches": boom}}, ps[k:]...)...)
				}
			}
			c.patchSets = append(c.patchSets, ps)
		}
		// long-form DIDs of the long-form protocol
		lf := []any{map[string]any{"action": "add-public-keys", "publicKeys": []any{map[string]any{"id": fmt.Sprintf("k%d", i), "type": "JsonWebKey2020",
			"purposes": []any{"authentication"}, "publicKeyJwk": docJWK(w.Pool.Get(i))}}}}
		delta := map[string]any{"updateCommitment": ref.Commitment(ref.SHA256, w.Pool.Get(i+1).RefJWK("")), "patches": lf}
		sd := map[string]any{"deltaHash": ref.ModelHash(ref.SHA256, delta), "recoveryCommitment": ref.Commitment(ref.SHA256, w.Pool.Get(i+2).RefJWK(""))}
		short := "did:ion:" + ref.ModelHash(ref.SHA256, sd)
		state := ref.B64(ref.JCS(map[string]any{"delta": delta, "suffixData": sd}))
		// the genuine DID and two siblings that share everything up to the last colon: the initial state of the previous DID, and the
		// genuine initial state with one character changed (indices 3i, 3i+1, 3i+2: whatever is decided per DID prefix is decided wrongly)
		otherState := state[:len(state)-2] + "AA"
		if len(c.longDIDs) > 0 {
			prev := c.longDIDs[len(c.longDIDs)-3]
			otherState = prev[strings.LastIndex(prev, ":")+1:]
		}
		changed := []byte(state)
		if changed[len(changed)/2] == 'A' {
			changed[len(changed)/2] = 'B'
		} else {
			changed[len(changed)/2] = 'A'
		}
		c.longDIDs = append(c.longDIDs, short+":"+state, short+":"+otherState, short+":"+string(changed))
		c.createLF = append(c.createLF, ref.JCS(map[string]any{"type": "create", "delta": delta, "suffixData": sd}))
		c.didDocs = append(c.didDocs, map[string]any{"keys": []any{map[string]any{"id": fmt.Sprintf("k%d", i), "type": "JsonWebKey2020", "key": i, "purposes": []any{"authentication", "assertionMethod"}},
			map[string]any{"id": "second", "type": "JsonWebKey2020", "key": i + 3, "purposes": []any{"keyAgreement"}}}, "upd": i + 5, "rec": i + 16})
	}
	if len(c.anchored) > 0 && !s.Cold {
		c.state, _ = w.Applier.Apply(c.anchored[0], &protocol.ResolutionModel{})
	}
	return c
}

type concCall struct {
	Comp string `json:"c"`
	I    int    `json:"i"`
	Name string `json:"n,omitempty"`
}

func digest(v any, err error) string {
	if err != nil {
		return "error"
	}
	b, merr := json.Marshal(v)
	if merr != nil {
		return "marshal-error"
	}
	return string(b)
}

func pick[T any](l []T, i int) (T, bool) {
	var zero T
	if len(l) == 0 {
		return zero, false
	}
	if i < 0 {
		i = -i
	}
	return l[i%len(l)], true
}

// run performs one call on the shared components and returns a digest of its result.
func (c *concShared) run(call concCall) (out string) {
	w := c.w
	defer func() {
		if r := recover(); r != nil {
			out = fmt.Sprintf("panic: %v", r)
		}
	}()
	ns := w.Plan.Swarm.Namespace
	switch call.Comp {
	case "parse":
		b, _ := pick(c.requests, call.I)
		op, err := c.ingress.Parse(ns, b)
		if err != nil {
			return "error"
		}
		return string(op.Type) + " " + op.ID
	case "reveal":
		b, _ := pick(c.requests, call.I)
		rv, err := w.Parser.GetRevealValue(b)
		cm, err2 := w.Parser.GetCommitment(b)
		return digest([]string{rv, cm}, nil) + fmt.Sprint(err != nil, err2 != nil)
	case "apply":
		a, ok := pick(c.anchored, call.I)
		if !ok {
			return "none"
		}
		rm, err := w.Applier.Apply(a, &protocol.ResolutionModel{})
		return digest(rm, err)
	case "apply2":
		// a signed operation against the state its DID is in: signature verification, delta binding, composition
		u, ok := pick(c.updates, call.I)
		st0, _ := pick(c.states, call.I)
		if !ok {
			return "none"
		}
		if cr, cold := pick(c.updCreate, call.I); cold {
			var cerr error
			if st0, cerr = w.Applier.Apply(cr, &protocol.ResolutionModel{}); cerr != nil {
				return "create-error"
			}
		}
		rm, err := w.Applier.Apply(u, st0)
		return digest(rm, err)
	case "compose":
		d, ok := pick(c.docs, call.I)
		ps, _ := pick(c.patchSets, call.I)
		if !ok {
			return "none"
		}
		lps, err := toPatches(ps)
		if err != nil {
			return "unparsable"
		}
		libDoc, _ := document.FromBytes(ref.JCS(d))
		res, err := w.Composer.ApplyPatches(libDoc, lps)
		return digest(res, err)
	case "transform":
		st := c.state
		if st == nil && w.Plan.Swarm.Cold && len(c.anchored) > 0 {
			st, _ = w.Applier.Apply(c.anchored[0], &protocol.ResolutionModel{})
		}
		if st == nil {
			return "none"
		}
		rm := *st // distinct input per call: the lists are copied
		a, _ := pick(c.anchored, call.I)
		b, _ := pick(c.anchored, call.I+1)
		rm.PublishedOperations = []*operation.AnchoredOperation{b, a}
		info := docutil.GetTransformationInfoForPublished(ns, ns+":x", "x", &rm)
		res, err := c.transform.TransformDocument(&rm, info)
		return digest(res, err)
	case "resolve":
		d, _ := pick(c.longDIDs, call.I)
		res, err := c.handler.ResolveDocument(d)
		return digest(res, err)
	case "process":
		b, _ := pick(c.createLF, call.I)
		res, err := c.handler.ProcessOperation(b)
		return digest(res, err)
	case "vdr-read":
		d, _ := pick(c.longDIDs, call.I)
		res, err := c.vdr.Read(d)
		if err != nil || res.DIDDocument == nil {
			return "error"
		}
		return res.DIDDocument.ID
	case "vdr-create":
		spec, ok := pick(c.didDocs, call.I)
		if !ok {
			return "none"
		}
		doc, _, err := w.buildDIDDoc(listOf(spec["keys"]), nil, nil)
		if err != nil {
			return "doc-error"
		}
		res, err := c.vdr.Create(doc, vdrapi.WithOption(sidetreelongform.UpdatePublicKeyOpt, w.Pool.Get(toInt(spec["upd"])).Public()),
			vdrapi.WithOption(sidetreelongform.RecoveryPublicKeyOpt, w.Pool.Get(toInt(spec["rec"])).Public()))
		if err != nil || res.DIDDocument == nil {
			return "error"
		}
		return res.DIDDocument.ID
	case "verprovider":
		v, err := c.verp.Current()
		v2, err2 := c.verp.Get(w.Plan.Swarm.GenesisTime)
		if err != nil || err2 != nil {
			return "error"
		}
		return v.Version() + v2.Version()
	case "ns-add":
		c.nsp.Add(call.Name, &fakeCVP{id: fmt.Sprint(call.I)})
		return "ok"
	case "ns-get":
		cvp, err := c.nsp.ForNamespace(call.Name)
		if err != nil {
			return "notfound"
		}
		v, _ := cvp.Current()
		return v.Version()
	case "reg-register":
		c.reg.Register(call.Name, &fakeFactory{id: fmt.Sprint(call.I)})
		return "ok"
	case "reg-create":
		v, err := c.reg.CreateClientVersion(call.Name, &vcommon.ProtocolConfig{})
		if err != nil {
			return "notfound"
		}
		return v.Version()
	}
	return "unknown-call"
}

func isRegistryCall(comp string) bool {
	return strings.HasPrefix(comp, "ns-") || strings.HasPrefix(comp, "reg-")
}

type histOp struct {
	client     int
	call       concCall
	out        string
	start, end int64
}

// registryModel is the sequential model of both registries (a map; DESIGN A.4).
var registryModel = porcupine.Model{
	Init: func() interface{} { return map[string]string{} },
	Step: func(state, input, output interface{}) (bool, interface{}) {
		st := state.(map[string]string)
		in := input.(concCall)
		out := output.(string)
		switch in.Comp {
		case "ns-add":
			ns := make(map[string]string, len(st)+1)
			for k, v := range st {
				ns[k] = v
			}
			ns["ns/"+in.Name] = fmt.Sprint(in.I)
			return out == "ok", ns
		case "ns-get":
			v, ok := st["ns/"+in.Name]
			if !ok {
				return out == "notfound", st
			}
			return out == v, st
		case "reg-register":
			if _, ok := st["reg/"+in.Name]; ok {
				return strings.HasPrefix(out, "panic"), st
			}
			ns := make(map[string]string, len(st)+1)
			for k, v := range st {
				ns[k] = v
			}
			ns["reg/"+in.Name] = fmt.Sprint(in.I)
			return out == "ok", ns
		case "reg-create":
			v, ok := st["reg/"+in.Name]
			if !ok {
				return out == "notfound", st
			}
			return out == v, st
		}
		return false, st
	},
	Equal: func(a, b interface{}) bool {
		x, y := a.(map[string]string), b.(map[string]string)
		if len(x) != len(y) {
			return false
		}
		for k, v := range x {
			if y[k] != v {
				return false
			}
		}
		return true
	},
}

// execConcurrent runs the tasks of the plan under the cooperative scheduler.
func (w *World) execConcurrent() {
	var tasks [][]concCall
	for _, st := range w.Plan.Steps {
		if st.Op != STask {
			continue
		}
		var calls []concCall
		b, _ := json.Marshal(st.Args["calls"])
		_ = json.Unmarshal(b, &calls)
		if len(calls) > 0 {
			tasks = append(tasks, calls)
		}
	}
	if len(tasks) == 0 {
		return
	}
	// this run signs with key material the process has not seen before
	w.Pool = w.Pool.WithFresh(core.NewRNG(w.Plan.Seed).Stream("c20/fresh-keys"), 4)
	if w.Plan.Swarm.Cold {
		w.T.Probe("cold_start")
	}
	shared := w.newConcShared("0")
	s := &coSched{planned: append([]int{}, w.Plan.Schedule...), rngState: core.NewRNG(w.Plan.Seed).Stream("sched").Uint64(),
		switchPc: uint64(w.Plan.Swarm.NetMaxDelay), maxSteps: 60000, sites: map[string]int{}, flushPools: w.Plan.Swarm.Cold || w.Plan.Swarm.FlushPools}
	if s.switchPc == 0 {
		s.switchPc = 100
	}
	results := make([][]string, len(tasks))
	hist := make([][]histOp, len(tasks))
	var bodies []func()
	// every task publishes its results to the main goroutine through this wait group: a release by the task, an
	// acquire by main - no edge between tasks
	var published sync.WaitGroup
	published.Add(len(tasks))
	for ti := range tasks {
		ti := ti
		results[ti] = make([]string, len(tasks[ti]))
		bodies = append(bodies, func() {
			defer published.Done()
			for ci, call := range tasks[ti] {
				start := stamp(s)
				out := shared.run(call)
				end := stamp(s)
				results[ti][ci] = out
				if isRegistryCall(call.Comp) {
					hist[ti] = append(hist[ti], histOp{client: ti, call: call, out: out, start: start, end: end})
				}
			}
		})
	}
	simrt.Install(s)
	s.start(bodies)
	simrt.Install(nil)
	if s.deadlock == "" {
		published.Wait()
	}

	w.T.Count("schedules_run", 1)
	w.T.Count("scheduling_points", uint64(s.steps))
	w.T.Mark(fmt.Sprintf("il:%016x", s.fp))
	if s.contended > 0 {
		w.T.Probe("lock_contended")
		w.T.Fault("lock_contention")
	}
	w.T.Fault("preemptions")
	if s.chanBlocks > 0 {
		w.T.Probe("task_parked_on_channel")
	}
	if s.gwSwitches > 0 {
		w.T.Probe("left_writer_at_global_write")
	}
	if s.flushes > 0 {
		w.T.Count("pool_flushes", uint64(s.flushes))
	}
	w.Plan.Schedule = s.choices // the explicit schedule makes the replay file self-contained
	w.T.Event("schedule fp=%016x steps=%d contended=%d", s.fp, s.steps, s.contended)
	if s.deadlock != "" {
		w.violate("C20/deadlock", "", "%s", s.deadlock)
		return
	}
	// (1) every call made alone (sequentially, on the same shared instances) gives the same result. The sequential
	// pass runs AFTER the concurrent one so that first-use work (lazy initialisation, caches) happens under concurrency,
	// where the race detector can see it. Registry calls are checked by linearizability instead.
	expected := make([][]string, len(tasks))
	for ti, calls := range tasks {
		expected[ti] = make([]string, len(calls))
		for ci, call := range calls {
			if !isRegistryCall(call.Comp) {
				expected[ti][ci] = shared.run(call)
			}
		}
	}
	for ti := range tasks {
		for ci, call := range tasks[ti] {
			if isRegistryCall(call.Comp) {
				continue
			}
			w.T.Count("concurrent_results_compared", 1)
			if results[ti][ci] != expected[ti][ci] {
				w.violate("C20/result-differs-from-sequential", call.Comp, "task %d call %d (%s #%d): concurrent result %s, alone %s", ti, ci, call.Comp, call.I,
					clipN([]byte(results[ti][ci]), 300), clipN([]byte(expected[ti][ci]), 300))
			}
		}
	}
	var ops []porcupine.Operation
	for ti := range hist {
		for _, h := range hist[ti] {
			ops = append(ops, porcupine.Operation{ClientId: h.client, Input: h.call, Call: h.start, Output: h.out, Return: h.end})
		}
	}
	if len(ops) > 0 && len(ops) <= 40 {
		w.T.Count("registry_histories_checked", 1)
		sort.SliceStable(ops, func(i, j int) bool { return ops[i].Call < ops[j].Call })
		if !porcupine.CheckOperations(registryModel, ops) {
			var desc []string
			for _, o := range ops {
				in := o.Input.(concCall)
				desc = append(desc, fmt.Sprintf("[%d..%d] task%d %s(%s,%d)=%s", o.Call, o.Return, o.ClientId, in.Comp, in.Name, in.I, o.Output))
			}
			w.violate("C20/registry-not-linearizable", "", "registry history is not linearizable against the sequential map model: %s", strings.Join(desc, "; "))
		}
	}
}

//go:norace
func stamp(s *coSched) int64 {
	s.steps++
	return s.steps
}

var concComps = []string{"parse", "reveal", "apply", "apply2", "apply2", "compose", "transform", "resolve", "process", "vdr-read", "vdr-create", "verprovider"}

// GenConcurrent generates C20 plans: 2-6 tasks of 3-10 calls on shared instances; overlapping registry names.
func GenConcurrent(seed uint64, cold bool, pool *Pool) *Plan {
	p, r := basePlan("C20", "concurrent", seed, pool)
	if cold {
		p.Profile, p.Swarm.Cold = "concurrent-cold", true
	}
	p.Swarm.NetMaxDelay = core.Pick(r, []int{20, 60, 150, 400}) // pre-emption probability (1/1000) at plain yield points
	names := []string{"did:a", "did:b", "did:a:b"}
	versions := []string{"2.0", "3.1", "4.0"}
	nt := r.Range(2, 6)
	regCalls := 0
	for t := 0; t < nt; t++ {
		var calls []any
		for n := r.Range(3, 10); n > 0; n-- {
			if r.Chance(1, 3) && regCalls < 36 {
				regCalls++
				comp := core.Pick(r, []string{"ns-add", "ns-get", "ns-get", "reg-register", "reg-create", "reg-create"})
				name := core.Pick(r, names)
				if strings.HasPrefix(comp, "reg-") {
					name = core.Pick(r, versions)
				}
				calls = append(calls, map[string]any{"c": comp, "i": t*100 + n, "n": name})
			} else {
				calls = append(calls, map[string]any{"c": core.Pick(r, concComps), "i": r.Intn(12)})
			}
		}
		p.Steps = append(p.Steps, Step{Op: STask, Node: t, Args: map[string]any{"calls": calls}})
	}
	// every task also applies patch lists to documents, twice: whatever the composer keeps between calls (buffers, pooled
	// objects) is handed from task to task
	if r.Chance(1, 2) {
		for t := 0; t < nt; t++ {
			st := &p.Steps[len(p.Steps)-nt+t]
			calls := st.Args["calls"].([]any)
			for n := 0; n < 2; n++ {
				k := r.Intn(len(calls) + 1)
				calls = append(calls[:k:k], append([]any{map[string]any{"c": "compose", "i": r.Intn(10)}}, calls[k:]...)...)
			}
			st.Args["calls"] = calls
		}
	}
	// siblings of one long-form DID resolved by different tasks at the same time
	if nt >= 2 {
		k := r.Intn(10)
		for t, comp := range []string{"resolve", core.Pick(r, []string{"resolve", "vdr-read"})} {
			st := &p.Steps[len(p.Steps)-nt+t]
			calls := st.Args["calls"].([]any)
			at := r.Intn(2)
			if at > len(calls) {
				at = len(calls)
			}
			calls = append(calls[:at:at], append([]any{map[string]any{"c": comp, "i": 3*k + t + r.Intn(2)*t}}, calls[at:]...)...)
			st.Args["calls"] = calls
		}
	}
	// every DID's signed operation is applied (signature verified) at least once per run, spread over the tasks
	for i := 0; i < 10; i++ {
		st := &p.Steps[len(p.Steps)-nt+r.Intn(nt)]
		calls := st.Args["calls"].([]any)
		k := r.Intn(len(calls) + 1)
		calls = append(calls[:k:k], append([]any{map[string]any{"c": "apply2", "i": i}}, calls[k:]...)...)
		st.Args["calls"] = calls
	}
	return p
}

func init() {
	register(&Property{
		ID: "C20", Level: "exploration", EvalCounter: "concurrent_results_compared",
		// process-level state inside the library (a cache, lazy initialisation) legitimately changes how many instrumented
		// functions a second execution in the same process runs, hence its schedule; determinism across processes is
		// checked by `bin/check selftest-determinism C20`
		NoRecheck: true,
		Rule: "2-6 tasks (real goroutines, exactly one runs at a time) issue 3-10 calls each against ONE shared parser, applier, composer, transformer, document handler, VDR, " +
			"version provider, namespace provider and client registry; at every rewriter-inserted point (each function entry of pkg/**, each Lock / RLock / Unlock) a seeded " +
			"schedule picks the next task, tasks whose TryLock fails are parked until an unlock. Oracles: result == result of the same call made alone beforehand; registry " +
			"histories (invoke / return stamped with the scheduler's event counter) linearizable against a sequential map (porcupine); -race build with the baton hand-off " +
			"hidden from the detector (a data race is a deterministic function of the plan); deadlock. Cold starts (64 / 1000 extra cases): each is the only run of a fresh process and " +
			"calls nothing of the library before its tasks start, so first-use initialisation of process-wide state happens under concurrency. distinct_nontrivial = distinct interleavings (hash of the (task, site) sequence)",
		Cases: func(master uint64, tier string) []Case {
			n, cold := 1200, 64
			if tier == "thorough" {
				n, cold = 60000, 1000
			}
			cs := seqCases(master, n, nil)
			// cold starts: each is run by the driver as the only case of a fresh process
			for _, c := range seqCases(master^0xc01d, cold, nil) {
				c.Variant = 1
				cs = append(cs, c)
			}
			return cs
		},
		Cold:           func(c Case) bool { return c.Variant == 1 },
		Gen:            func(c Case, pool *Pool) *Plan { return GenConcurrent(c.Seed, c.Variant == 1, pool) },
		Exec:           func(p *Plan, pool *Pool, t *core.Trace) { execConcPlan(p, pool, t) },
		// (lock_contended is reported but not required: whether the library uses mutexes at all is its own business)
		RequiredProbes: map[string][]string{"quick": {"cold_start", "schedules_run"}, "thorough": {"cold_start", "schedules_run"}},
		Components: map[string]string{"operationparser, operationapplier, doccomposer, didtransformer, dochandler, VDR, verprovider, nsprovider, clientregistry, log": "real (rewritten copy: yield / lock hooks inserted by tools/rewrite)",
			"Go scheduler": "simulated (cooperative baton scheduler driven by the seed)", "race detector": "real (-race), baton hidden with runtime.RaceDisable"},
		Assumptions: append([]string{"interleavings are explored at the granularity of inserted points (function entries and lock operations); finer interference is left to the happens-before race oracle",
			"the race oracle sees only code a task actually executed"}, worldAssumptions...),
	})
}

func execConcPlan(p *Plan, pool *Pool, t *core.Trace) {
	w := NewWorld(p, pool, t)
	w.execConcurrent()
	t.Samples = append(t.Samples, map[string]any{"seed": p.Seed, "tasks": p.Steps, "schedule_length": len(p.Schedule)})
}
