package sim

import (
	"encoding/json"
	"math/big"
	"strconv"
)

func jsonInt(i int) json.Number { return json.Number(strconv.Itoa(i)) }

const b58Alphabet = "123456789ABCDEFGHJKLMNPQRSTUVWXYZabcdefghijkmnopqrstuvwxyz"

// b58 is Bitcoin base58 (harness-side implementation).
func b58(b []byte) string {
	x := new(big.Int).SetBytes(b)
	base := big.NewInt(58)
	mod := new(big.Int)
	var out []byte
	for x.Sign() > 0 {
		x.DivMod(x, base, mod)
		out = append(out, b58Alphabet[mod.Int64()])
	}
	for _, c := range b {
		if c != 0 {
			break
		}
		out = append(out, b58Alphabet[0])
	}
	for i, j := 0, len(out)-1; i < j; i, j = i+1, j-1 {
		out[i], out[j] = out[j], out[i]
	}
	return string(out)
}
