package sim

import (
	"bytes"
	"encoding/json"
	"fmt"
)

func bytesReader(b []byte) *bytes.Reader { return bytes.NewReader(b) }

// Swarm holds every per-run knob: protocol limits, algorithm and patch lists, topology, fault switches.
type Swarm struct {
	HashAlgs     []uint   `json:"hashAlgs"`
	MaxOpSize    uint     `json:"maxOpSize"`
	MaxHashLen   uint     `json:"maxHashLen"`
	MaxDeltaSize uint     `json:"maxDeltaSize"`
	NonceSize    uint64   `json:"nonceSize"`
	TimeDelta    uint64   `json:"timeDelta"`
	// Cold: the run is the first thing its process does and nothing of the library runs before the concurrent tasks start
	// (C20: first-use initialisation of process-wide state happens under concurrency)
	Cold bool `json:"cold,omitempty"`
	// FarFuture (C09): every windowed operation is also applied as if anchored at 2^63-1, 2^63, 2^63+t and 2^64-1
	FarFuture bool `json:"farFuture,omitempty"`
	// Soak: every non-create operation is applied this many further times to the same state through the same applier
	Soak int `json:"soak,omitempty"`
	// FlushPools: the runtime's object pools are emptied at every task switch (C20; always on in cold runs)
	FlushPools bool `json:"flushPools,omitempty"`
	GenesisTime  uint64   `json:"genesisTime"`
	MaxOpCount   uint     `json:"maxOpCount"`
	Patches      []string `json:"patches"`
	SigAlgs      []string `json:"sigAlgs"`
	KeyAlgs      []string `json:"keyAlgs"`

	BlockInterval int64  `json:"blockInterval"` // seconds of simulated time per block
	Observers     int    `json:"observers"`
	ChainMode     bool   `json:"chainMode"` // observers filter by commitment/reveal matching
	DiskChecksum  bool   `json:"diskChecksum"`
	Namespace     string `json:"namespace"`
	NetDropPct    int    `json:"netDropPct,omitempty"`
	NetDupPct     int    `json:"netDupPct,omitempty"`
	NetMaxDelay   int    `json:"netMaxDelay,omitempty"`
}

// Plan is one closed run: the executor is a pure function of (Plan, code under test).
type Plan struct {
	Property   string `json:"property"`
	Profile    string `json:"profile"`
	Seed       uint64 `json:"seed"`
	CryptoSeed uint64 `json:"cryptoSeed"`
	Swarm      Swarm  `json:"swarm"`
	Steps      []Step `json:"steps"`
	Schedule   []int  `json:"schedule,omitempty"`
	// Pool names the key pool the plan's key indices refer to: seed, keys per type, leading-zero keys per curve and
	// coordinate (zero value: the default pool).
	Pool [3]uint64 `json:"pool,omitempty"`
}

// Step kinds.
const (
	SSubmit    = "submit"    // a wallet authors an operation and sends it
	STick      = "tick"      // advance simulated time by N seconds (blocks are cut on the way)
	SCrash     = "crash"     // observer loses volatile state
	SRestart   = "restart"   // observer re-reads its durable log and re-folds
	SResolve   = "resolve"   // observer answers a resolution request
	SClockJump = "clockjump" // an actor's clock jumps
	SPartition = "partition" // observer cut off from the ledger
	SHeal      = "heal"
	SDiskFault = "diskfault" // next write on an observer's disk is torn / short / lost, or a stored record rots
	SEnum      = "enum"      // enumerate a fault catalogue over a sampled object
	SCall      = "call"      // direct library call with hostile input (C19)
	STask      = "task"      // C20 task definition
	SLongForm  = "longform"  // C17: create / resolve long-form DIDs
	SCompose   = "compose"   // C10/C11/C12: direct composer call
	SObject    = "object"    // C06/C15/C16: materialise an object (key, JWS, JSON value)
)

// Step is an abstract step; it is resolved against ground truth when executed, so that dropping an
// earlier step during minimisation leaves the rest meaningful.
type Step struct {
	Op string `json:"op"`

	// submit
	Wallet       int    `json:"wallet,omitempty"`
	DID          int    `json:"did,omitempty"`
	Kind         string `json:"kind,omitempty"`    // create|update|recover|deactivate
	Builder      string `json:"builder,omitempty"` // "lib" (client.New*Request + library signers), "raw" (harness builder), "client" (sidetree.Client over HTTP), "clientfn"
	Via          string `json:"via,omitempty"`     // "intake" | "direct"
	Fault        string `json:"fault,omitempty"`   // failure class
	FaultArg     int    `json:"faultArg,omitempty"`
	AnchoredKind string `json:"anchoredKind,omitempty"`
	Patches      []any  `json:"patches,omitempty"` // delta patches (generic JSON); key material referenced as {"$key": poolIdx}
	Opaque       bool   `json:"opaque,omitempty"`  // create/recover from an opaque document instead of patches
	NextUpd      int    `json:"nextUpd,omitempty"` // pool index of the next update key
	NextRec      int    `json:"nextRec,omitempty"` // pool index of the next recovery key
	NextUpdIsRevealed bool `json:"nextUpdIsRevealed,omitempty"` // recover: the next update key is the recovery key being revealed (allowed)
	KeyExtras    bool   `json:"keyExtras,omitempty"` // raw builder: the revealed key in the signed payload carries kid / use / alg / key_ops too
	NonceUpd     bool   `json:"nonceUpd,omitempty"`
	NonceRec     bool   `json:"nonceRec,omitempty"`
	SignKey      int    `json:"signKey,omitempty"` // 0: the wallet's current key; else pool index + 1 (hostile / replay)
	Origin       any    `json:"origin,omitempty"`  // anchor origin
	HasOrigin    bool   `json:"hasOrigin,omitempty"`
	EntityType   string `json:"entityType,omitempty"`
	From         int64  `json:"from,omitempty"` // anchorFrom: absolute when Abs, else offset (seconds) from the wallet's clock; 0 with !HasFrom = absent
	Until        int64  `json:"until,omitempty"`
	HasFrom      bool   `json:"hasFrom,omitempty"`
	HasUntil     bool   `json:"hasUntil,omitempty"`
	Abs          bool   `json:"abs,omitempty"`
	HashAlg      uint   `json:"hashAlg,omitempty"` // 0: first configured
	Kid          string `json:"kid,omitempty"`
	// members added to the signed payload by the raw builder when the honest payload does not have them: names of the
	// protocol vocabulary that the operation type's signed data does not use ("$reveal" / "$suffix" stand for the request's values)
	SignedExtra map[string]any `json:"signedExtra,omitempty"`
	Replay       int    `json:"replay,omitempty"`   // n > 0: re-anchor the bytes of the n-th most recent operation this wallet authored for the DID
	Respace      bool   `json:"respace,omitempty"`  // direct submissions: request bytes re-serialised with whitespace / another member order
	PadDelta     int    `json:"padDelta,omitempty"` // 1: pad the delta to exactly MaxDeltaSize (canonical bytes); 2: one byte below; 3: one byte above (invalid)
	PadKind      int    `json:"padKind,omitempty"`  // which characters the padding contains (encoders disagree on the length of some)

	// network fate of the message carrying the submit
	Delay    int  `json:"delay,omitempty"` // seconds
	Dup      int  `json:"dup,omitempty"`   // extra deliveries
	Drop     bool `json:"drop,omitempty"`
	RespLost bool `json:"respLost,omitempty"` // response lost after processing -> client retry

	// tick / clockjump
	Secs  int64  `json:"secs,omitempty"`
	Actor string `json:"actor,omitempty"`

	// crash / restart / resolve / partition / diskfault
	Node     int    `json:"node,omitempty"`
	DiskKind string `json:"diskKind,omitempty"`
	Offset   int    `json:"offset,omitempty"`
	Opts     int    `json:"opts,omitempty"` // transformer option bitmask

	// enum / call / object / longform / compose / task: free-form arguments
	Name  string         `json:"name,omitempty"`
	Args  map[string]any `json:"args,omitempty"`
	Index int            `json:"index,omitempty"` // 0 = enumerate all fault points; n > 0 = only fault point n-1
}

func (p *Plan) JSON() []byte {
	b, err := json.MarshalIndent(p, "", " ")
	if err != nil {
		panic(err)
	}
	return b
}

func PlanFromJSON(b []byte) (*Plan, error) {
	var p Plan
	d := json.NewDecoder(bytesReader(b))
	d.UseNumber()
	if err := d.Decode(&p); err != nil {
		return nil, fmt.Errorf("plan: %w", err)
	}
	return &p, nil
}

// Clone deep-copies a plan through JSON.
func (p *Plan) Clone() *Plan {
	q, err := PlanFromJSON(p.JSON())
	if err != nil {
		panic(err)
	}
	return q
}
