//go:build simrt && race

package sim

import (
	"runtime"
)

// The cooperative scheduler (DESIGN 1.5). Tasks are real goroutines of which exactly one holds the baton; at each
// rewriter-inserted point (function entry, lock, unlock) the schedule decides who runs next. The baton hand-off is
// wrapped in runtime.RaceDisable / RaceEnable so the race detector does not see the scheduler's channels as
// happens-before edges: the only synchronisation it sees is the library's own. All scheduler state is touched from
// //go:norace functions only, so the scheduler itself cannot be reported.

type coTask struct {
	id      int
	resume  chan struct{}
	state   int // 0 runnable, 1 blocked on a lock, 2 done
	site    string
	started bool
}

type coSched struct {
	tasks     []*coTask
	cur       *coTask
	planned   []int // explicit schedule (replay / shrinking); consumed first
	choices   []int // every choice actually made
	rngState  uint64
	switchPc  uint64 // probability (in 1/1000) of leaving the running task at a plain yield point
	steps     int64
	maxSteps  int64
	fp        uint64 // fingerprint of the (task, site) sequence: identifies the interleaving
	contended int
	deadlock  string
	abort     bool
	allDone   chan struct{}
	sites     map[string]int
	// flushPools empties the runtime's object pools (sync.Pool: fmt, encoding/json, ...) at every task switch. On one P a
	// task's Get returns what the previous task Put, and under -race that pair is a release / acquire: an incidental
	// happens-before edge that real parallel executions (per-P pools) do not have and that hides races from the detector.
	flushPools bool
	flushes    int
	site       string // site of the yield being decided
	chanBlocks int
	spins      int // consecutive wake-everybody rounds without progress
	sticky     int
	gwSwitches int
}

//go:norace
func (s *coSched) flush() {
	if s.flushPools {
		// two collections: the first moves the pools to their victim caches, the second drops those
		runtime.GC()
		runtime.GC()
		s.flushes++
	}
}

//go:norace
func (s *coSched) next() uint64 {
	s.rngState += 0x9e3779b97f4a7c15
	z := s.rngState
	z = (z ^ (z >> 30)) * 0xbf58476d1ce4e5b9
	z = (z ^ (z >> 27)) * 0x94d049bb133111eb
	return z ^ (z >> 31)
}

//go:norace
func (s *coSched) note(site string) {
	s.steps++
	h := s.fp
	h ^= uint64(s.cur.id + 1)
	h *= 1099511628211
	for i := 0; i < len(site); i++ {
		h ^= uint64(site[i])
		h *= 1099511628211
	}
	s.fp = h
}

// choose picks the next task among the runnable ones. preferOther: the running task cannot continue.
//
//go:norace
func (s *coSched) choose(mustLeave bool) *coTask {
	var runnable []*coTask
	for _, t := range s.tasks {
		if t.state == 0 {
			runnable = append(runnable, t)
		}
	}
	if len(runnable) == 0 && mustLeave && s.spins <= 4*len(s.tasks)+4 {
		// nobody is runnable: let every parked task try again (a channel may have become ready, a lock free, since it parked); if
		// this keeps happening with no task making a step in between, the run is deadlocked
		for _, t := range s.tasks {
			if t.state == 1 {
				t.state = 0
				runnable = append(runnable, t)
			}
		}
		if len(runnable) > 0 {
			s.spins++
		}
	}
	if len(runnable) == 0 {
		return nil
	}
	var c int
	switch {
	case len(s.planned) > 0:
		c = s.planned[0]
		s.planned = s.planned[1:]
		if c < 0 {
			c = -c
		}
		c %= len(runnable)
	case s.steps > s.maxSteps && !mustLeave:
		// budget used up: no more pre-emption, run tasks to completion
		c = 0
		for i, t := range runnable {
			if t == s.cur {
				c = i
			}
		}
	default:
		pc := s.switchPc
		if len(s.site) > 3 && s.site[:3] == "sp " && pc < 300 {
			// right before a synchronisation operation of the library (sync.Map, atomics, Once, channels): for data-race-free
			// code these are the only points where interleavings differ, so they are left more readily than function entries
			pc = 300
		}
		stay := !mustLeave && s.next()%1000 >= pc
		if !mustLeave && s.sticky > 0 {
			// the task that took over at a global-write point runs on undisturbed for a while: it is the one that may read the
			// half-written state before the writer does anything else
			s.sticky--
			stay = true
		}
		gw := !mustLeave && len(s.site) > 3 && s.site[:3] == "gw "
		if gw && len(runnable) > 1 && s.next()%2 == 0 {
			stay = false
		}
		c = int(s.next() % uint64(len(runnable)))
		if stay {
			for i, t := range runnable {
				if t == s.cur {
					c = i
				}
			}
		} else if gw {
			// leave the writer: any other runnable task
			if runnable[c] == s.cur {
				c = (c + 1) % len(runnable)
			}
			s.sticky = int(200 + s.next()%4000)
			s.gwSwitches++
		}
	}
	s.choices = append(s.choices, c)
	return runnable[c]
}

// handoff gives the baton to t and parks the caller until it is resumed.
//
//go:norace
func (s *coSched) handoff(self, t *coTask) {
	if t == self {
		return
	}
	s.cur = t
	s.flush()
	runtime.RaceDisable()
	t.resume <- struct{}{}
	<-self.resume
	runtime.RaceEnable()
	if s.abort {
		runtime.Goexit()
	}
}

// Yield is a plain pre-emption point.
//
//go:norace
func (s *coSched) Yield(site string) {
	self := s.cur
	if self == nil || s.abort {
		return
	}
	s.note(site)
	s.spins = 0
	if len(site) > 3 && site[:3] == "sp " {
		// something may be about to change for tasks parked on a channel: let them poll again when they are next scheduled
		for _, o := range s.tasks {
			if o.state == 1 {
				o.state = 0
			}
		}
	}
	s.site = site
	t := s.choose(false)
	s.site = ""
	if t != nil {
		s.handoff(self, t)
	}
}

// Lock acquires through try(), parking the task while the lock is held by somebody else.
//
//go:norace
func (s *coSched) Lock(try func() bool, site string) {
	self := s.cur
	if self == nil || s.abort {
		for !try() {
			runtime.Gosched()
		}
		return
	}
	// a scheduling point right before the lock is taken: this is where interleavings differ
	s.Yield("lock " + site)
	for {
		if try() {
			s.note("acquired " + site)
			s.spins = 0
			return
		}
		s.contended++
		self.state, self.site = 1, site
		s.note("blocked " + site)
		t := s.choose(true)
		if t == nil {
			s.failDeadlock()
			return
		}
		s.handoff(self, t)
	}
}

// Blocked parks the running task because a channel operation of the library cannot proceed yet. Parked tasks are woken whenever
// another task unlocks something or is about to perform a synchronisation operation, and - when nobody else can run - all at
// once, to poll again; if they all park again with nothing having happened in between, the run is deadlocked.
//
//go:norace
func (s *coSched) Blocked(site string) {
	self := s.cur
	if self == nil || s.abort {
		runtime.Gosched()
		return
	}
	s.chanBlocks++
	self.state, self.site = 1, site
	s.note("blocked " + site)
	t := s.choose(true)
	if t == nil {
		s.failDeadlock()
		return
	}
	if t == self {
		self.state = 0
		return
	}
	s.handoff(self, t)
}

// Unlocked wakes every task parked on a lock (they retry when scheduled) and is a pre-emption point.
//
//go:norace
func (s *coSched) Unlocked(site string) {
	self := s.cur
	if self == nil || s.abort {
		return
	}
	for _, t := range s.tasks {
		if t.state == 1 {
			t.state = 0
		}
	}
	s.note("unlocked " + site)
	if t := s.choose(false); t != nil {
		s.handoff(self, t)
	}
}

//go:norace
func (s *coSched) failDeadlock() {
	msg := "all tasks are parked on locks:"
	for _, t := range s.tasks {
		if t.state == 1 {
			msg += " task" + string(rune('0'+t.id)) + "@" + t.site
		}
	}
	s.deadlock = msg
	s.finishAll()
}

// finishAll aborts the run: parked tasks are released and exit.
//
//go:norace
func (s *coSched) finishAll() {
	s.abort = true
	self := s.cur
	for _, t := range s.tasks {
		if t != self && t.state != 2 && t.started {
			t.state = 2
			runtime.RaceDisable()
			t.resume <- struct{}{}
			runtime.RaceEnable()
		}
	}
	close(s.allDone)
	runtime.Goexit()
}

// taskDone is the last thing a task does: pass the baton on, or end the run.
//
//go:norace
func (s *coSched) taskDone(self *coTask) {
	if s.abort {
		return
	}
	self.state = 2
	s.note("done")
	t := s.choose(true)
	if t != nil {
		s.cur = t
		s.flush()
		runtime.RaceDisable()
		t.resume <- struct{}{}
		runtime.RaceEnable()
		return
	}
	for _, o := range s.tasks {
		if o.state == 1 {
			s.failDeadlock()
			return
		}
	}
	s.cur = nil
	close(s.allDone)
}

// start launches the task goroutines (parked) and hands the baton to the first chosen one.
//
//go:norace
func (s *coSched) start(bodies []func()) {
	s.allDone = make(chan struct{})
	for i := range bodies {
		s.tasks = append(s.tasks, &coTask{id: i, resume: make(chan struct{})})
	}
	for i, body := range bodies {
		t, body := s.tasks[i], body
		go func() {
			runtime.RaceDisable()
			<-t.resume
			runtime.RaceEnable()
			if s.abort {
				return
			}
			body()
			s.taskDone(t)
		}()
		t.started = true
	}
	first := s.choose(true)
	s.cur = first
	runtime.RaceDisable()
	first.resume <- struct{}{}
	runtime.RaceEnable()
	<-s.allDone
}
