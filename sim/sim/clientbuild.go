package sim

import (
	"bytes"
	"encoding/json"
	"errors"
	"fmt"
	"io"
	"net/http"

	docdid "github.com/trustbloc/did-go/doc/did"
	"github.com/trustbloc/did-go/doc/did/endpoint"
	"github.com/trustbloc/kms-go/doc/jose/jwk/jwksupport"

	"github.com/trustbloc/sidetree-go/pkg/api/operation"
	"github.com/trustbloc/sidetree-go/pkg/api/protocol"
	"github.com/trustbloc/sidetree-go/pkg/docutil"
	"github.com/trustbloc/sidetree-go/pkg/jws"
	"github.com/trustbloc/sidetree-go/pkg/vdr/sidetreelongform/dochandler/protocolversion/versions/common"
	"github.com/trustbloc/sidetree-go/pkg/vdr/sidetreelongform/sidetree"
	stdoc "github.com/trustbloc/sidetree-go/pkg/vdr/sidetreelongform/sidetree/doc"
	"github.com/trustbloc/sidetree-go/pkg/vdr/sidetreelongform/sidetree/option/create"
	"github.com/trustbloc/sidetree-go/pkg/vdr/sidetreelongform/sidetree/option/deactivate"
	"github.com/trustbloc/sidetree-go/pkg/vdr/sidetreelongform/sidetree/option/recovery"
	"github.com/trustbloc/sidetree-go/pkg/vdr/sidetreelongform/sidetree/option/update"
	"github.com/trustbloc/sidetree-go/pkg/versions/1_0/client"
	"github.com/trustbloc/sidetree-go/pkg/versions/1_0/doctransformer/didtransformer"
	"github.com/trustbloc/sidetree-go/pkg/versions/1_0/docvalidator/didvalidator"

	"verif/sim/ref"
)

// apiSigner adapts a pool key to the Sidetree client's signer interface.
type apiSigner struct {
	lib client.Signer
	jwk *jws.JWK
}

func (s *apiSigner) Sign(data []byte) ([]byte, error) { return s.lib.Sign(data) }
func (s *apiSigner) Headers() jws.Headers             { return s.lib.Headers() }
func (s *apiSigner) PublicKeyJWK() *jws.JWK           { return s.jwk }

// toClientKey converts a generic document key entry (after $key resolution is NOT applied: the entry still
// carries {"$key": idx}) into the client's PublicKey option.
func (w *World) toClientKey(e map[string]any) (*stdoc.PublicKey, error) {
	pk := &stdoc.PublicKey{}
	pk.ID, _ = e["id"].(string)
	pk.Type, _ = e["type"].(string)
	for _, p := range listOf(e["purposes"]) {
		s, _ := p.(string)
		pk.Purposes = append(pk.Purposes, s)
	}
	if ph, ok := e["publicKeyJwk"].(map[string]any); ok {
		idx := toInt(ph["$key"])
		j, err := jwksupport.JWKFromKey(w.Pool.Get(idx % len(w.Pool.Keys)).Public())
		if err != nil {
			return nil, err
		}
		pk.JWK = *j
	}
	if b, ok := e["publicKeyBase58"].(string); ok {
		pk.B58Key = b
	}
	return pk, nil
}

// toClientService converts a service entry. shared (may be nil) is ONE empty property map handed to several services of the
// run's client calls (services derived from a template or by struct copy share their Properties map): whatever a builder
// writes into it shows in all of them, in this call and in later ones.
func toClientService(e map[string]any, shared map[string]interface{}) *docdid.Service {
	s := &docdid.Service{}
	if id, _ := e["id"].(string); shared != nil && len(id)%2 == 0 {
		s.Properties = shared
	}
	s.ID, _ = e["id"].(string)
	s.Type = e["type"]
	switch ep := e["serviceEndpoint"].(type) {
	case string:
		s.ServiceEndpoint = endpoint.NewDIDCommV1Endpoint(ep)
	default:
		s.ServiceEndpoint = endpoint.NewDIDCoreEndpoint(ep)
	}
	if p, ok := e["priority"]; ok {
		s.Priority = p
	}
	for _, k := range listOf(e["recipientKeys"]) {
		str, _ := k.(string)
		s.RecipientKeys = append(s.RecipientKeys, str)
	}
	return s
}

// clientContent is the document content of a client-built request, grouped the way the client's options group it.
type clientContent struct {
	addKeys, addServices       []map[string]any
	removeKeys, removeServices []string
	addAka, removeAka          []string
}

// splitForClient groups a patch list (only the six add/remove actions, at most one patch per action) into
// client options and returns the patch list the client is documented to emit for them (remove-before-add for
// update; document order for create / recover).
func splitForClient(patches []any, kind ref.OpKind) (*clientContent, []any, bool) {
	c := &clientContent{}
	seen := map[string]bool{}
	for _, p := range patches {
		m, _ := p.(map[string]any)
		a, _ := m["action"].(string)
		if seen[a] {
			return nil, nil, false
		}
		seen[a] = true
		switch a {
		case "add-public-keys":
			for _, k := range listOf(m["publicKeys"]) {
				c.addKeys = append(c.addKeys, k.(map[string]any))
			}
		case "add-services":
			for _, s := range listOf(m["services"]) {
				c.addServices = append(c.addServices, s.(map[string]any))
			}
		case "remove-public-keys":
			c.removeKeys = strsOf(m["ids"])
		case "remove-services":
			c.removeServices = strsOf(m["ids"])
		case "add-also-known-as":
			c.addAka = strsOf(m["uris"])
		case "remove-also-known-as":
			c.removeAka = strsOf(m["uris"])
		default:
			return nil, nil, false
		}
	}
	var out []any
	keys := func() {
		if len(c.addKeys) > 0 {
			out = append(out, map[string]any{"action": "add-public-keys", "publicKeys": mapsToAny(c.addKeys)})
		}
	}
	svcs := func() {
		if len(c.addServices) > 0 {
			out = append(out, map[string]any{"action": "add-services", "services": mapsToAny(c.addServices)})
		}
	}
	aka := func() {
		if len(c.addAka) > 0 {
			out = append(out, map[string]any{"action": "add-also-known-as", "uris": strList(c.addAka)})
		}
	}
	if kind == ref.Update {
		if len(c.removeAka) > 0 {
			out = append(out, map[string]any{"action": "remove-also-known-as", "uris": strList(c.removeAka)})
		}
		if len(c.removeKeys) > 0 {
			out = append(out, map[string]any{"action": "remove-public-keys", "ids": strList(c.removeKeys)})
		}
		if len(c.removeServices) > 0 {
			out = append(out, map[string]any{"action": "remove-services", "ids": strList(c.removeServices)})
		}
		aka()
		svcs()
		keys()
	} else {
		if len(c.removeAka)+len(c.removeKeys)+len(c.removeServices) > 0 {
			return nil, nil, false
		}
		// opaque document members in sorted order: alsoKnownAs, publicKey, service
		aka()
		keys()
		svcs()
	}
	if len(out) == 0 {
		return nil, nil, false
	}
	return c, out, true
}

func strsOf(v any) []string {
	var out []string
	for _, e := range listOf(v) {
		s, _ := e.(string)
		out = append(out, s)
	}
	return out
}

func mapsToAny(ms []map[string]any) []any {
	out := make([]any, len(ms))
	for i, m := range ms {
		out[i] = m
	}
	return out
}

// captureRT is the simulated HTTP transport: it captures the request body, lets the intake build the reply and
// injects transport faults (connection error before / after processing, non-200 reply).
type captureRT struct {
	w        *World
	bodies   [][]byte
	failNext int    // fail this many round trips first
	failKind string // "conn" | "status"
}

func (rt *captureRT) RoundTrip(req *http.Request) (*http.Response, error) {
	body, err := io.ReadAll(req.Body)
	if err != nil {
		return nil, err
	}
	rt.bodies = append(rt.bodies, body)
	if rt.failNext > 0 {
		rt.failNext--
		if rt.failKind == "status" {
			rt.w.T.Fault("http_non_200")
			return &http.Response{StatusCode: 503, Body: io.NopCloser(bytes.NewReader([]byte("busy"))), Header: http.Header{}, Request: req}, nil
		}
		rt.w.T.Fault("http_conn_error")
		return nil, errors.New("simulated: connection reset")
	}
	reply := rt.w.Intake.Reply(body)
	return &http.Response{StatusCode: 200, Body: io.NopCloser(bytes.NewReader(reply)), Header: http.Header{}, Request: req}, nil
}

// protocolVersion wires the world's parser / applier / transformer the way a node does.
func (w *World) protocolVersion() protocol.Version {
	return &common.ProtocolVersion{VersionStr: "1.0", P: w.Proto, OpParser: w.Parser, OpApplier: w.Applier,
		DocValidator: didvalidator.New(), DocTransformer: didtransformer.New(didtransformer.WithBase(true))}
}

// Reply is what the endpoint answers: for an acceptable create, the resolution result of the new DID; otherwise
// an empty object (the client ignores the body of non-create replies).
func (in *Intake) Reply(body []byte) []byte {
	w := in.w
	op, err := in.parser.Parse(w.Plan.Swarm.Namespace, body)
	if err != nil || op.Type != operation.TypeCreate {
		return []byte("{}")
	}
	pv := w.protocolVersion()
	rm, err := docutil.GetCreateResult(op, pv)
	if err != nil {
		return []byte("{}")
	}
	ti := docutil.GetTransformationInfoForUnpublished(w.Plan.Swarm.Namespace, "", "", op.UniqueSuffix, "")
	rr, err := pv.DocumentTransformer().TransformDocument(rm, ti)
	if err != nil {
		return []byte("{}")
	}
	b, err := json.Marshal(rr)
	if err != nil {
		return []byte("{}")
	}
	return b
}

// buildWithClient authors the request with sidetree.Client (over the simulated HTTP transport, or through the
// request-function option) and returns the bytes the client handed to its transport.
func (wl *Wallet) buildWithClient(st *Step, rb *rawBuild, nextUpd, nextRec keyUse, content *clientContent, overHTTP bool) ([]byte, error) {
	w := wl.w
	rt := &captureRT{w: w}
	var captured [][]byte
	var c *sidetree.Client
	if overHTTP {
		if st.RespLost {
			rt.failNext, rt.failKind = 1, "conn"
		} else if st.Dup > 0 {
			rt.failNext, rt.failKind = 1, "status"
		}
		c = sidetree.New(sidetree.WithHTTPClient(&http.Client{Transport: rt}))
	} else {
		c = sidetree.New(sidetree.WithSidetreeOperationRequestFnc(func(req []byte, _ sidetree.GetEndpointsFunc) ([]byte, error) {
			captured = append(captured, req)
			return w.Intake.Reply(req), nil
		}))
	}
	endpoints := func(disableCache bool) ([]string, error) {
		if disableCache {
			w.T.Probe("client_retry_with_cache_disabled")
		}
		return []string{"http://node.sim/operations"}, nil
	}
	did := w.Plan.Swarm.Namespace + ":" + rb.suffix
	var err error
	switch rb.kind {
	case ref.Create:
		opts := []create.Option{create.WithSidetreeEndpoint(endpoints), create.WithMultiHashAlgorithm(rb.alg),
			create.WithUpdatePublicKey(w.Pool.Get(nextUpd.Idx).Public()), create.WithRecoveryPublicKey(w.Pool.Get(nextRec.Idx).Public())}
		for _, k := range content.addKeys {
			pk, kerr := w.toClientKey(k)
			if kerr != nil {
				return nil, kerr
			}
			opts = append(opts, create.WithPublicKey(pk))
		}
		for _, s := range content.addServices {
			opts = append(opts, create.WithService(toClientService(s, w.sharedProps())))
		}
		for _, u := range content.addAka {
			opts = append(opts, create.WithAlsoKnownAs(u))
		}
		if s, ok := rb.origin.(string); ok && rb.hasOrigin {
			opts = append(opts, create.WithAnchorOrigin(s))
		}
		var res *docdid.DocResolution
		res, err = c.CreateDID(opts...)
		if err == nil && (res == nil || res.DIDDocument == nil) {
			err = fmt.Errorf("CreateDID returned no document")
		}
	default:
		key := w.Pool.Get(rb.sign.Idx)
		jwk, jerr := libJWK(key, rb.sign.Nonce)
		if jerr != nil {
			return nil, jerr
		}
		signer := &apiSigner{lib: libSigner(key, key.Type.Alg(), rb.kid), jwk: jwk}
		// the commitment the client derives the reveal-value algorithm from
		calg := rb.alg
		if rb.sign.Alg != 0 {
			calg = rb.sign.Alg
		}
		current := ref.Commitment(calg, w.refJWK(rb.sign))
		switch rb.kind {
		case ref.Update:
			opts := []update.Option{update.WithSidetreeEndpoint(endpoints), update.WithMultiHashAlgorithm(rb.alg), update.WithSigner(signer),
				update.WithNextUpdatePublicKey(w.Pool.Get(nextUpd.Idx).Public()), update.WithOperationCommitment(current)}
			for _, k := range content.addKeys {
				pk, kerr := w.toClientKey(k)
				if kerr != nil {
					return nil, kerr
				}
				opts = append(opts, update.WithAddPublicKey(pk))
			}
			for _, s := range content.addServices {
				opts = append(opts, update.WithAddService(toClientService(s, w.sharedProps())))
			}
			for _, u := range content.addAka {
				opts = append(opts, update.WithAddAlsoKnownAs(u))
			}
			for _, id := range content.removeKeys {
				opts = append(opts, update.WithRemovePublicKey(id))
			}
			for _, id := range content.removeServices {
				opts = append(opts, update.WithRemoveService(id))
			}
			for _, u := range content.removeAka {
				opts = append(opts, update.WithRemoveAlsoKnownAs(u))
			}
			err = c.UpdateDID(did, opts...)
		case ref.Recover:
			opts := []recovery.Option{recovery.WithSidetreeEndpoint(endpoints), recovery.WithMultiHashAlgorithm(rb.alg), recovery.WithSigner(signer),
				recovery.WithNextUpdatePublicKey(w.Pool.Get(nextUpd.Idx).Public()), recovery.WithNextRecoveryPublicKey(w.Pool.Get(nextRec.Idx).Public()),
				recovery.WithOperationCommitment(current)}
			for _, k := range content.addKeys {
				pk, kerr := w.toClientKey(k)
				if kerr != nil {
					return nil, kerr
				}
				opts = append(opts, recovery.WithPublicKey(pk))
			}
			for _, s := range content.addServices {
				opts = append(opts, recovery.WithService(toClientService(s, w.sharedProps())))
			}
			for _, u := range content.addAka {
				opts = append(opts, recovery.WithAlsoKnownAs(u))
			}
			if s, ok := rb.origin.(string); ok && rb.hasOrigin {
				opts = append(opts, recovery.WithAnchorOrigin(s))
			}
			err = c.RecoverDID(did, opts...)
		case ref.Deactivate:
			err = c.DeactivateDID(did, deactivate.WithSidetreeEndpoint(endpoints), deactivate.WithSigner(signer), deactivate.WithOperationCommitment(current))
		}
	}
	if err != nil {
		return nil, err
	}
	if overHTTP {
		captured = rt.bodies
	}
	if len(captured) == 0 {
		return nil, fmt.Errorf("client sent nothing")
	}
	for _, b := range captured[1:] {
		if !bytes.Equal(b, captured[0]) {
			// a retry must resend the same request: a second, different request would make a second DID state
			return nil, fmt.Errorf("client retry sent different bytes")
		}
	}
	if len(captured) > 1 {
		w.T.Probe("retry_duplicate")
	}
	return captured[0], nil
}

// sharedProps is the run's shared (empty) service property map.
func (w *World) sharedProps() map[string]interface{} {
	if w.svcProps == nil {
		w.svcProps = map[string]interface{}{}
	}
	return w.svcProps
}
