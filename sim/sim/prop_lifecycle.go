package sim

import (
	"fmt"

	docdid "github.com/trustbloc/did-go/doc/did"

	"github.com/trustbloc/sidetree-go/pkg/commitment"
	"github.com/trustbloc/sidetree-go/pkg/jws"
	"github.com/trustbloc/sidetree-go/pkg/vdr/sidetreelongform/sidetree"
	"github.com/trustbloc/sidetree-go/pkg/vdr/sidetreelongform/sidetree/option/recovery"
	"github.com/trustbloc/sidetree-go/pkg/vdr/sidetreelongform/sidetree/option/update"
	"github.com/trustbloc/sidetree-go/pkg/versions/1_0/client"

	"verif/sim/core"
	"verif/sim/ref"
)

// clientFriendlyPatches draws at most one patch per add/remove action (what the Sidetree client can express).
// stripJWKExtras removes extra JWK members: keys handed to the Sidetree client are built from crypto keys.
func stripJWKExtras(v any) any {
	switch x := v.(type) {
	case map[string]any:
		if k, ok := x["$key"]; ok {
			return map[string]any{"$key": k}
		}
		out := make(map[string]any, len(x))
		for n, e := range x {
			out[n] = stripJWKExtras(e)
		}
		return out
	case []any:
		out := make([]any, len(x))
		for i, e := range x {
			out[i] = stripJWKExtras(e)
		}
		return out
	}
	return v
}

func clientFriendlyPatches(r *core.RNG, pool *Pool, kind ref.OpKind) []any {
	actions := []string{"add-public-keys", "add-services", "add-also-known-as"}
	if kind == ref.Update {
		actions = append(actions, "remove-public-keys", "remove-services", "remove-also-known-as")
	}
	core.Shuffle(r, actions)
	actions = actions[:r.Range(1, len(actions))]
	var out []any
	for _, a := range actions {
		var other []string
		out = append(out, stripJWKExtras(genPatches(r, pool, &Swarm{Patches: []string{a}}, 1, &other)[0]))
	}
	return out
}

// GenLifecycle generates C08 plans: honest lifecycles create -> update* -> recover -> update* -> deactivate built
// with the library builders and with the Sidetree client, sent through the intake. variant 0: fault-free (strict);
// variant 1: delivery faults, retries, crash / restart (eventual).
func GenLifecycle(prop string, seed uint64, variant int, pool *Pool) *Plan {
	r := core.NewRNG(seed).Stream("gen/" + prop)
	p := &Plan{Property: prop, Profile: "lifecycle", Seed: seed, CryptoSeed: core.NewRNG(seed).Stream("crypto").Uint64()}
	p.Swarm = GenSwarm(r.Stream("swarm"), pool)
	s := &p.Swarm
	s.Patches = append([]string{}, allActions...)
	s.ChainMode = r.Chance(1, 2)
	faulty := variant == 1
	if faulty {
		p.Profile = "lifecycle-faults"
		s.NetDropPct, s.NetDupPct, s.NetMaxDelay = r.Intn(15), r.Intn(20), r.Intn(int(s.BlockInterval)*2)
	}
	nd := r.Range(1, 3)
	type life struct {
		d     *genDID
		kinds []ref.OpKind
		next  int
	}
	var lives []*life
	for i := 0; i < nd; i++ {
		l := &life{d: &genDID{wallet: r.Intn(2), did: i}}
		l.kinds = append(l.kinds, ref.Create)
		for n := r.Intn(4); n > 0; n-- {
			l.kinds = append(l.kinds, ref.Update)
		}
		if r.Chance(3, 4) {
			l.kinds = append(l.kinds, ref.Recover)
			for n := r.Intn(3); n > 0; n-- {
				l.kinds = append(l.kinds, ref.Update)
			}
		}
		if r.Chance(2, 3) {
			l.kinds = append(l.kinds, ref.Deactivate)
		}
		lives = append(lives, l)
	}
	for {
		var open []*life
		for _, l := range lives {
			if l.next < len(l.kinds) {
				open = append(open, l)
			}
		}
		if len(open) == 0 {
			break
		}
		l := core.Pick(r, open)
		kind := l.kinds[l.next]
		l.next++
		st := opStep(r, pool, s, l.d, kind, ref.FNone, true)
		st.Via = "intake"
		st.Builder = core.Pick(r, []string{"lib", "lib", "client", "clientfn"})
		if st.Builder != "lib" && kind != ref.Deactivate {
			st.Patches = clientFriendlyPatches(r, pool, kind)
		}
		if kind == ref.Create || kind == ref.Recover {
			st.Opaque = st.Builder == "lib" && r.Chance(1, 3) && onlyAdds(st.Patches)
		}
		// honest windows: already open, far from closing
		if st.HasFrom {
			st.From = -int64(r.Range(0, 30))
			if st.HasUntil {
				st.Until = int64(r.Range(5000, 100000))
			}
		}
		if faulty {
			if r.Chance(1, 6) {
				st.Delay = r.Intn(int(s.BlockInterval))
			}
			if r.Chance(1, 6) {
				st.RespLost = true
			}
			if r.Chance(1, 10) {
				st.Dup = 1
			}
		}
		st.Patches = didGoSafe(st.Patches).([]any)
		if kind == ref.Create {
			// create replies are parsed with did-go, which insists on well-formed standard JWK members (x5c ...)
			st.Patches = stripJWKExtras(st.Patches).([]any)
		}
		if _, isStr := st.Origin.(string); kind == ref.Create && st.HasOrigin && !isStr {
			// did-go's resolution metadata (used to parse create replies) types the anchor origin as a string
			st.Origin, st.HasOrigin = "https://anchor.example/origin", true
		}
		p.Steps = append(p.Steps, st)
		// an honest controller waits for its operation to be anchored before it authors the next one for the DID
		p.Steps = append(p.Steps, Step{Op: STick, Secs: s.BlockInterval + int64(st.Delay) + 3})
		if faulty {
			p.Steps = addEnvFaults(r, s, p.Steps, true)
		}
	}
	return p
}

// didGoSafe rewrites service endpoints that are arrays of URI strings (valid for Sidetree, refused by did-go's
// document schema, which the Sidetree client uses to parse create replies) into a single URI string.
func didGoSafe(v any) any {
	switch x := v.(type) {
	case map[string]any:
		out := make(map[string]any, len(x))
		for k, e := range x {
			if l, ok := e.([]any); ok && k == "serviceEndpoint" && len(l) > 0 {
				if s, isStr := l[0].(string); isStr {
					out[k] = s
					continue
				}
			}
			out[k] = didGoSafe(e)
		}
		return out
	case []any:
		out := make([]any, len(x))
		for i, e := range x {
			out[i] = didGoSafe(e)
		}
		return out
	}
	return v
}

func onlyAdds(patches []any) bool {
	seen := map[string]bool{}
	for _, p := range patches {
		m, _ := p.(map[string]any)
		a, _ := m["action"].(string)
		if a != "add-public-keys" && a != "add-services" && a != "add-also-known-as" || seen[a] {
			return false
		}
		seen[a] = true
	}
	// an opaque document lists its members in sorted order; the equivalent patch list does too
	order := map[string]int{"add-also-known-as": 0, "add-public-keys": 1, "add-services": 2}
	last := -1
	for _, p := range patches {
		m, _ := p.(map[string]any)
		o := order[m["action"].(string)]
		if o < last {
			return false
		}
		last = o
	}
	return true
}

// builderRefusals probes the documented bad inputs: the builders must refuse them.
func (w *World) builderRefusals() {
	alg := w.firstAlg()
	k1, k2 := w.Pool.Get(0), w.Pool.Get(1)
	j1, _ := libJWK(k1, "")
	c1, _ := commitment.GetCommitment(j1, alg)
	j2, _ := libJWK(k2, "")
	c2, _ := commitment.GetCommitment(j2, alg)
	other := uint(ref.SHA512)
	if alg == ref.SHA512 {
		other = ref.SHA256
	}
	cOther, _ := commitment.GetCommitment(j2, other)
	rv1 := ref.Reveal(alg, k1.RefJWK(""))
	p, _ := toPatches([]any{map[string]any{"action": "add-also-known-as", "uris": []any{"https://example.com/a"}}})
	signer := libSigner(k1, k1.Type.Alg(), "")
	expectErr := func(name string, err error) {
		w.T.Count("builder_refusals_probed", 1)
		if err == nil {
			w.violate("C08/builder-accepted-bad-input", name, "builder accepted %s", name)
		}
	}
	_, err := client.NewCreateRequest(&client.CreateRequestInfo{Patches: p, RecoveryCommitment: c1, UpdateCommitment: c1, MultihashCode: alg})
	expectErr("create with equal commitments", err)
	_, err = client.NewCreateRequest(&client.CreateRequestInfo{Patches: p, RecoveryCommitment: c1, UpdateCommitment: cOther, MultihashCode: alg})
	expectErr("create with a commitment computed with another algorithm than declared", err)
	_, err = client.NewUpdateRequest(&client.UpdateRequestInfo{DidSuffix: "s", Patches: p, UpdateCommitment: c1, UpdateKey: j1, MultihashCode: alg, Signer: signer, RevealValue: rv1})
	expectErr("update re-using the signing key as next commitment", err)
	_, err = client.NewRecoverRequest(&client.RecoverRequestInfo{DidSuffix: "s", RecoveryKey: j1, Patches: p, RecoveryCommitment: c1, UpdateCommitment: c2, MultihashCode: alg, Signer: signer, RevealValue: rv1})
	expectErr("recover re-using the signing key as next commitment", err)
	_, err = client.NewUpdateRequest(&client.UpdateRequestInfo{DidSuffix: "s", Patches: p, UpdateCommitment: c2, UpdateKey: j1, MultihashCode: alg, Signer: nil, RevealValue: rv1})
	expectErr("update without signer", err)
	_, err = client.NewDeactivateRequest(&client.DeactivateRequestInfo{DidSuffix: "s", RecoveryKey: j1, Signer: libSigner(k1, "", ""), RevealValue: rv1})
	expectErr("deactivate with a signer that names no algorithm", err)
	_, err = client.NewUpdateRequest(&client.UpdateRequestInfo{DidSuffix: "s", Patches: p, UpdateCommitment: c2, UpdateKey: j1, MultihashCode: alg,
		Signer: extraHeaderSigner{signer}, RevealValue: rv1})
	expectErr("update with an extra protected header", err)
}

// clientRefusals probes the Sidetree client with a re-used key as next commitment, with the same and with a switched
// hash algorithm: it must refuse before anything is sent.
func (w *World) clientRefusals() {
	for _, t := range []KeyType{Ed25519, P256} {
		key := w.Pool.Get(w.Pool.ByType[t][0])
		other := w.Pool.Get(w.Pool.ByType[t][1])
		jwk, err := libJWK(key, "")
		if err != nil {
			continue
		}
		signer := &apiSigner{lib: libSigner(key, key.Type.Alg(), ""), jwk: jwk}
		for _, algs := range [][2]uint{{ref.SHA256, ref.SHA256}, {ref.SHA256, ref.SHA512}, {ref.SHA512, ref.SHA256}} {
			committed, requested := algs[0], algs[1]
			current := ref.Commitment(committed, key.RefJWK(""))
			sent := 0
			c := sidetree.New(sidetree.WithSidetreeOperationRequestFnc(func(req []byte, _ sidetree.GetEndpointsFunc) ([]byte, error) {
				sent++
				return []byte("{}"), nil
			}))
			ep := func(bool) ([]string, error) { return []string{"http://node.sim/operations"}, nil }
			did := w.Plan.Swarm.Namespace + ":" + ref.HashBytes(ref.SHA256, []byte("probe"))
			check := func(name string, err error) {
				w.T.Count("builder_refusals_probed", 1)
				if err == nil || sent > 0 {
					w.violate("C08/client-accepted-bad-input", name, "sidetree.Client accepted %s (commitment algorithm %d, requested %d, key %s): err=%v, requests sent=%d",
						name, committed, requested, t, err, sent)
				}
				sent = 0
			}
			check("recover re-using the revealed key as next recovery key", c.RecoverDID(did, recovery.WithSidetreeEndpoint(ep), recovery.WithMultiHashAlgorithm(requested),
				recovery.WithSigner(signer), recovery.WithOperationCommitment(current), recovery.WithNextUpdatePublicKey(other.Public()),
				recovery.WithNextRecoveryPublicKey(key.Public()), recovery.WithAlsoKnownAs("https://example.com/a")))
			check("update re-using the revealed key as next update key", c.UpdateDID(did, update.WithSidetreeEndpoint(ep), update.WithMultiHashAlgorithm(requested),
				update.WithSigner(signer), update.WithOperationCommitment(current), update.WithNextUpdatePublicKey(key.Public()),
				update.WithAddAlsoKnownAs("https://example.com/a")))
		}
	}
}

type extraHeaderSigner struct{ client.Signer }

func (e extraHeaderSigner) Headers() jws.Headers {
	h := jws.Headers{}
	for k, v := range e.Signer.Headers() {
		h[k] = v
	}
	h["typ"] = "JWT"
	return h
}

// checkCreateReply: the endpoint's reply to a create parses as a DID resolution naming the new DID (C08).
func (w *World) checkCreateReply(op *BuiltOp) {
	if op.Truth.Kind != ref.Create {
		return
	}
	// a create whose patches leave the document empty (or do not apply) is answered with an error by design
	if doc, err := ref.Compose(map[string]any{}, op.Truth.Patches); err != nil || len(ref.NormDoc(doc)) == 0 {
		w.T.Probe("create_with_empty_document")
		return
	}
	reply := w.Intake.Reply(op.Bytes)
	w.T.Count("create_replies_checked", 1)
	res, err := docdid.ParseDocumentResolution(reply)
	if err != nil || res.DIDDocument == nil {
		w.violate("C08/create-reply", "", "create reply does not parse as a DID resolution: %v (%s)", err, clip(reply))
		return
	}
	want := w.Plan.Swarm.Namespace + ":" + op.Truth.Suffix
	if res.DIDDocument.ID != want {
		w.violate("C08/create-reply-id", "", "create reply names %s, want %s", res.DIDDocument.ID, want)
	}
}

func init() {
	register(&Property{
		ID: "C08", Level: "exploration", EvalCounter: "fold_steps_checked",
		Rule: "seeded honest lifecycles create -> update* -> recover -> update* -> deactivate for 1-3 DIDs, every request built by client.New*Request or by sidetree.Client " +
			"(over a simulated HTTP transport with connection errors / non-200 replies driving the real retry path, and through the request-function option), all five key " +
			"types, optional anchor origin / window / nonce / kid, both hash algorithms, drawn matching protocol configuration; intake (real Parse) -> GetAnchoredOperation -> " +
			"ledger -> observers; fault-free profile strict, faulty profile (delivery faults, retries, crash/restart) eventual. distinct_nontrivial = distinct per-DID histories",
		Cases: func(master uint64, tier string) []Case {
			n := 2000
			if tier == "thorough" {
				n = 100000
			}
			return seqCases(master, n, func(int) int { return 2 })
		},
		Gen:            func(c Case, pool *Pool) *Plan { return GenLifecycle("C08", c.Seed, c.Variant, pool) },
		RequiredProbes: map[string][]string{"thorough": {"retry_duplicate", "client_retry_with_cache_disabled", "intake_accepted"}},
		Components: func() map[string]string {
			m := map[string]string{"sidetree.Client (CreateDID / UpdateDID / RecoverDID / DeactivateDID, defaultSendRequest retry)": "real",
				"docutil.GetCreateResult, didtransformer (create replies)": "real", "HTTP server and transport": "stub (in-process RoundTripper)"}
			for k, v := range worldComponents {
				m[k] = v
			}
			return m
		}(),
		Assumptions: worldAssumptions,
	})
	_ = fmt.Sprint
}
