package sim

import (
	"verif/sim/core"
	"verif/sim/ref"
)

// GenTamper generates C02 plans: a short honest history brings a DID into some state; then one valid operation of a
// drawn type and key type is enumerated through the adversary's whole tamper catalogue against that state.
func GenTamper(seed uint64, pool *Pool) *Plan {
	r := core.NewRNG(seed).Stream("gen/C02")
	p := &Plan{Property: "C02", Profile: "tamper-enum", Seed: seed, CryptoSeed: core.NewRNG(seed).Stream("crypto").Uint64()}
	p.Swarm = GenSwarm(r.Stream("swarm"), pool)
	s := &p.Swarm
	s.Patches = append([]string{}, allActions...)
	s.Observers = 1
	d := &genDID{}
	hist := []ref.OpKind{ref.Create}
	for n := r.Intn(3); n > 0; n-- {
		hist = append(hist, core.Pick(r, []ref.OpKind{ref.Update, ref.Update, ref.Recover}))
	}
	for _, k := range hist {
		st := opStep(r, pool, s, d, k, ref.FNone, true)
		st.Via, st.HasFrom, st.HasUntil = "direct", false, false
		p.Steps = append(p.Steps, st, Step{Op: STick, Secs: s.BlockInterval + 1})
	}
	kind := core.Pick(r, []ref.OpKind{ref.Update, ref.Recover, ref.Deactivate})
	en := opStep(r, pool, s, d, kind, ref.FNone, true)
	en.Op, en.Name = SEnum, "tamper"
	if en.HasFrom {
		en.From = -int64(r.Range(0, 30))
		if en.HasUntil {
			en.Until = int64(r.Range(5000, 100000))
		}
	}
	p.Steps = append(p.Steps, en)
	return p
}

func init() {
	register(&Property{
		ID: "C02", Level: "fault_enumeration", EvalCounter: "tampers_applied",
		Rule: "per sampled valid update / recover / deactivate (all five key types, both hash algorithms, nonce / kid / window variants, state reached by a seeded history): " +
			"the adversary's catalogue is enumerated exhaustively - every bit of the decoded signature, every signed-payload field re-encoded without re-signing, key substitution " +
			"with / without re-signing and with / without the matching reveal value, reveal-value substitution, delta substitution, protected-header additions and algorithm " +
			"substitutions, malformed compact forms - and each tamper is applied to the untampered previous state: refused with the state untouched, or (recover with a bad " +
			"delta only) applied with an empty document. distinct_nontrivial = distinct (operation type, key type, hash algorithm) bases that were accepted untampered",
		Cases: func(master uint64, tier string) []Case {
			n := 160
			if tier == "thorough" {
				n = 5500
			}
			return seqCases(master, n, nil)
		},
		Gen:            func(c Case, pool *Pool) *Plan { return GenTamper(c.Seed, pool) },
		RequiredProbes: map[string][]string{"quick": {"tamper_bases"}, "thorough": {"tamper_bases"}},
		Components:     worldComponents,
		Assumptions:    append([]string{"ECDSA (r, n-s) malleability is not a single-bit change and is not generated; a tamper that leaves the decoded (header, payload, signature) triple unchanged is not a forgery"}, worldAssumptions...),
	})
}
