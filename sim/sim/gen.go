package sim

import (
	"fmt"
	"net/url"

	"verif/sim/core"
	"verif/sim/ref"
)

// ---- swarm configuration: every numeric limit drawn independently from disjoint ranges (DESIGN A.3)

func GenSwarm(r *core.RNG, pool *Pool) Swarm {
	s := Swarm{
		TimeDelta:     uint64(r.Range(120, 900)),
		GenesisTime:   uint64(r.Range(1, 50)),
		NonceSize:     uint64(r.Range(8, 32)),
		MaxHashLen:    uint(r.Range(100, 118)),
		MaxOpCount:    uint(r.Range(1000, 3000)),
		MaxDeltaSize:  uint(r.Range(5000, 9000)),
		MaxOpSize:     uint(r.Range(20000, 40000)),
		BlockInterval: int64(r.Range(5, 60)),
		Observers:     r.Range(1, 3),
		DiskChecksum:  true,
		// (method-specific ids may carry further colon-separated segments and percent-encoded characters: a domain hint with a port)
		Namespace: core.Pick(r, []string{"did:sidetree", "did:ion", "did:orb:test", "did:x", "did:sidetree:localhost%3A8080", "did:orb:https%3A%2F%2Fexample.com%2Fservices%2Forb"}),
	}
	switch r.Intn(5) {
	case 0:
		s.HashAlgs = []uint{ref.SHA512}
	case 1:
		s.HashAlgs = []uint{ref.SHA256, ref.SHA512}
	case 2:
		s.HashAlgs = []uint{ref.SHA512, ref.SHA256}
	default:
		s.HashAlgs = []uint{ref.SHA256}
	}
	// patches: all eight most of the time, otherwise a random subset that still contains the basic adds
	s.Patches = append([]string{}, allActions...)
	if r.Chance(1, 3) {
		s.Patches = []string{"add-public-keys", "add-services", "add-also-known-as"}
		for _, a := range []string{"replace", "remove-public-keys", "remove-services", "remove-also-known-as", "ietf-json-patch"} {
			if r.Chance(1, 2) {
				s.Patches = append(s.Patches, a)
			}
		}
	}
	// key / signature algorithms: all five most of the time, otherwise a subset of at least two
	types := []KeyType{Ed25519, P256, P384, P521, Secp256k1}
	if r.Chance(1, 3) {
		core.Shuffle(r, types)
		types = types[:r.Range(2, 4)]
	}
	for _, t := range types {
		s.KeyAlgs = append(s.KeyAlgs, t.Crv())
		s.SigAlgs = append(s.SigAlgs, t.Alg())
	}
	return s
}

func (s *Swarm) allowedTypes() []KeyType {
	var out []KeyType
	for t := KeyType(0); t < numKeyTypes; t++ {
		for _, c := range s.KeyAlgs {
			if c == t.Crv() {
				out = append(out, t)
			}
		}
	}
	return out
}

func (s *Swarm) enabled(action string) bool {
	for _, a := range s.Patches {
		if a == action {
			return true
		}
	}
	return false
}

// pickKey draws a pool key of a type the configuration allows for signing.
func pickSigningKey(r *core.RNG, pool *Pool, s *Swarm) int {
	t := core.Pick(r, s.allowedTypes())
	return pool.PickOfType(r, t)
}

// ---- document content

// (keys and services have separate id spaces: "didcomm" names a key and a service)
var keyIDs = []string{"k1", "k2", "k3", "signing-key_4", "K-5", "didcomm"}
var svcIDs = []string{"s1", "s2", "hub_3", "S-4", "didcomm"}
var akaURIs = []string{"https://example.com/a", "did:web:example.org", "urn:uuid:1234", "https://xn--bcher-kva.example/päth", "mailto:a@b.example",
	// different strings that a URL normaliser would identify with an entry above (the set semantics are on strings)
	"HTTPS://example.com/a", "https://example.com/a#", "https://xn--bcher-kva.example/p%C3%A4th", "https://example.com/a?",
	// a query string: characters that HTML-safe JSON encoders escape
	"https://example.com/q?a=1&b=2"}

type docKeyKind struct {
	typ      string
	keyTypes []KeyType
	purposes []string
	b58      bool
}

var verificationPurposes = []string{"authentication", "assertionMethod", "capabilityDelegation", "capabilityInvocation"}
var allPurposes = []string{"authentication", "assertionMethod", "keyAgreement", "capabilityDelegation", "capabilityInvocation"}

var docKeyKinds = []docKeyKind{
	{"JsonWebKey2020", []KeyType{Ed25519, P256, P384, P521, Secp256k1}, allPurposes, false},
	{"EcdsaSecp256k1VerificationKey2019", []KeyType{Secp256k1}, allPurposes, false},
	{"Ed25519VerificationKey2018", []KeyType{Ed25519}, verificationPurposes, false},
	{"Ed25519VerificationKey2020", []KeyType{Ed25519}, verificationPurposes, false},
	{"Ed25519VerificationKey2018", []KeyType{Ed25519}, verificationPurposes, true},
	{"X25519KeyAgreementKey2019", []KeyType{Ed25519}, []string{"keyAgreement"}, true},
	{"Bls12381G2Key2020", []KeyType{Ed25519}, allPurposes, true},
}

// genDocKey produces one valid public-key entry.
func genDocKey(r *core.RNG, pool *Pool, id string) map[string]any {
	k := core.Pick(r, docKeyKinds)
	key := pool.Get(pool.PickOfType(r, core.Pick(r, k.keyTypes)))
	e := map[string]any{"id": id, "type": k.typ}
	if k.b58 {
		e["publicKeyBase58"] = b58(key.X)
	} else {
		jwk := map[string]any{"$key": key.Idx}
		if r.Chance(1, 5) {
			// members a JWK exported elsewhere carries: strings, booleans, arrays, objects
			for _, m := range core.Subset(r, []string{"kid", "alg", "use", "ext", "key_ops", "x5c", "custom"}, 1, 3) {
				switch m {
				case "kid", "alg", "use":
					jwk[m] = core.Pick(r, []string{"sig", "ES256", "key-1"})
				case "ext":
					jwk[m] = true
				case "key_ops":
					jwk[m] = []any{"verify"}
				case "x5c":
					jwk[m] = []any{"MIIBfake"}
				default:
					jwk[m] = map[string]any{"n": jsonInt(r.Intn(9)), "nested": []any{nil, "x"}}
				}
			}
		}
		e["publicKeyJwk"] = jwk
	}
	if !r.Chance(1, 6) {
		ps := core.Subset(r, k.purposes, 1, 2)
		if len(ps) == 0 {
			ps = []string{k.purposes[r.Intn(len(k.purposes))]}
		}
		l := make([]any, len(ps))
		for i, p := range ps {
			l[i] = p
		}
		e["purposes"] = l
	}
	return e
}

func genService(r *core.RNG, id string) map[string]any {
	s := map[string]any{"id": id, "type": core.Pick(r, []string{"LinkedDomains", "DIDCommMessaging", "hub", "T"})}
	switch r.Intn(4) {
	case 0:
		s["serviceEndpoint"] = "https://example.com/" + id
	case 1:
		s["serviceEndpoint"] = []any{"https://a.example/" + id, "https://b.example/x?y=z"}
	case 2:
		s["serviceEndpoint"] = map[string]any{"uri": "https://c.example", "accept": []any{"didcomm/v2"}, "routingKeys": []any{"did:example:r#1"}}
	default:
		s["serviceEndpoint"] = []any{map[string]any{"uri": "https://d.example/" + id}}
	}
	if r.Chance(1, 3) {
		s["priority"] = jsonInt(r.Intn(5))
	}
	if r.Chance(1, 4) {
		s["recipientKeys"] = []any{"did:example:123#key-" + id}
	}
	return s
}

// genPatches draws 1..max validated patches using only enabled actions. Ids are drawn from a small space so
// that adds collide with, overlap or miss existing entries.
func genPatches(r *core.RNG, pool *Pool, s *Swarm, max int, otherMembers *[]string) []any {
	n := r.Range(1, max)
	var out []any
	for len(out) < n {
		action := core.Pick(r, s.Patches)
		switch action {
		case "add-public-keys":
			ids := core.Subset(r, keyIDs, 2, 5)
			if len(ids) == 0 {
				ids = []string{core.Pick(r, keyIDs)}
			}
			var ks []any
			for _, id := range ids {
				ks = append(ks, genDocKey(r, pool, id))
			}
			out = append(out, map[string]any{"action": action, "publicKeys": ks})
		case "remove-public-keys":
			out = append(out, map[string]any{"action": action, "ids": strList(nonEmpty(r, keyIDs, append([]string{"ghost"}, keyIDs...)))})
		case "add-services":
			ids := core.Subset(r, svcIDs, 2, 5)
			if len(ids) == 0 {
				ids = []string{core.Pick(r, svcIDs)}
			}
			var ss []any
			for _, id := range ids {
				ss = append(ss, genService(r, id))
			}
			out = append(out, map[string]any{"action": action, "services": ss})
		case "remove-services":
			out = append(out, map[string]any{"action": action, "ids": strList(nonEmpty(r, svcIDs, append([]string{"nosuch"}, svcIDs...)))})
		case "add-also-known-as", "remove-also-known-as":
			out = append(out, map[string]any{"action": action, "uris": strList(distinctURIs(nonEmpty(r, akaURIs, akaURIs)))})
		case "replace":
			if !r.Chance(1, 3) {
				continue
			}
			d := map[string]any{}
			if r.Chance(3, 4) {
				var ks []any
				for _, id := range core.Subset(r, keyIDs, 1, 2) {
					ks = append(ks, genDocKey(r, pool, id))
				}
				if len(ks) > 0 {
					d["publicKeys"] = ks
				}
			}
			if r.Chance(3, 4) {
				var ss []any
				for _, id := range core.Subset(r, svcIDs, 1, 2) {
					ss = append(ss, genService(r, id))
				}
				if len(ss) > 0 {
					d["services"] = ss
				}
			}
			out = append(out, map[string]any{"action": action, "document": d})
		case "ietf-json-patch":
			out = append(out, map[string]any{"action": action, "patches": genRFC6902(r, otherMembers)})
		}
	}
	return out
}

var otherNames = []string{"note", "created", "meta", "tags", "a~b", "x/y"}

func ptrEscape(s string) string {
	out := ""
	for _, c := range s {
		switch c {
		case '~':
			out += "~0"
		case '/':
			out += "~1"
		default:
			out += string(c)
		}
	}
	return out
}

// genRFC6902 draws a small self-contained list of operations over non-protected members: remove / replace /
// test / copy / move only name members the same list added before, so that applicability does not depend on
// the document state and the list lies in the subset on which RFC 6902 is unambiguous. (The C10 profile
// explores the rest of RFC 6902.)
func genRFC6902(r *core.RNG, present *[]string) []any {
	var ops []any
	var mine []string
	n := r.Range(1, 4)
	for i := 0; i < n; i++ {
		name := core.Pick(r, otherNames)
		path := "/" + ptrEscape(name)
		k := r.Intn(8)
		if len(mine) == 0 {
			k = 0
		}
		switch k {
		case 0, 1, 2:
			ops = append(ops, map[string]any{"op": "add", "path": path, "value": genValue(r)})
			mine = appendUnique(mine, name)
		case 3:
			m := core.Pick(r, mine)
			ops = append(ops, map[string]any{"op": "remove", "path": "/" + ptrEscape(m)})
			mine = removeStr(mine, m)
		case 4:
			m := core.Pick(r, mine)
			ops = append(ops, map[string]any{"op": "replace", "path": "/" + ptrEscape(m), "value": genValue(r)})
		case 5:
			m := core.Pick(r, mine)
			v := genValue(r)
			ops = append(ops, map[string]any{"op": "add", "path": "/" + ptrEscape(m), "value": v})
			ops = append(ops, map[string]any{"op": "test", "path": "/" + ptrEscape(m), "value": v})
		case 6:
			m := core.Pick(r, mine)
			if m == "tags" || name == "tags" {
				continue // never alias the array that later operations edit in place
			}
			ops = append(ops, map[string]any{"op": "copy", "from": "/" + ptrEscape(m), "path": path})
			mine = appendUnique(mine, name)
		default:
			ops = append(ops, map[string]any{"op": "add", "path": "/tags", "value": []any{"t1", "t2"}})
			ops = append(ops, map[string]any{"op": "add", "path": "/tags/-", "value": "t3"})
			ops = append(ops, map[string]any{"op": "add", "path": "/tags/1", "value": genValue(r)})
			mine = appendUnique(mine, "tags")
		}
	}
	if present != nil {
		*present = mine
	}
	return ops
}

func appendUnique(l []string, s string) []string {
	for _, e := range l {
		if e == s {
			return l
		}
	}
	return append(l, s)
}

func removeStr(l []string, s string) []string {
	var out []string
	for _, e := range l {
		if e != s {
			out = append(out, e)
		}
	}
	return out
}

func genValue(r *core.RNG) any {
	switch r.Intn(6) {
	case 0:
		return "text"
	case 1:
		return jsonInt(r.Intn(1000))
	case 2:
		return true
	case 3:
		if rk := r.Stream("astral-keys"); rk.Chance(1, 3) {
			return map[string]any{"k": "v", "\U0001F600": jsonInt(r.Intn(9)), "\uFB33": true}
		}
		return map[string]any{"k": "v", "n": jsonInt(r.Intn(9))}
	case 4:
		return []any{"a", jsonInt(1), map[string]any{"z": nil}}
	default:
		// characters on which JSON encoders / escapers disagree
		return core.Pick(r, exoticStrings)
	}
}

// exoticStrings: characters on which JSON encoders / escapers disagree.
var exoticStrings = []string{"ünïcode ✓", "line\u2028sep\u2029", "<script>&amp;</script>", "del\u007f", "nul\u0000byte", "\U0001F600\uFB33", "tab\tquote\"back\\slash/", "\ufeffbom",
	"\u001funit", "a\u2029b", "\u0085nel"}

func genOrigin(r *core.RNG) (any, bool) {
	switch r.Intn(9) {
	case 6:
		return []any{"https://origin-a.example", "https://origin-b.example"}, true
	case 7:
		if rx := r.Stream("exotic-origin"); rx.Chance(1, 2) {
			return core.Pick(rx, exoticStrings), true
		}
		return core.Pick(r, []string{"12345", "true", "a b c"}), true
	case 8:
		return []any{jsonInt(r.Intn(50)), "x", true}, true
	case 0:
		return nil, false
	case 1:
		return "https://anchor.example/services/orb", true
	case 2:
		return jsonInt(r.Intn(100000)), true
	case 3:
		// (member names whose UTF-16 order differs from their code point order: an astral character against U+E000..U+FFFF)
		return map[string]any{"node": "n1", "€": "euro", "\U0001F600": jsonInt(1), "\uFB33": jsonInt(2), "\uE000x": "pua", "list": []any{jsonInt(1), "two"}}, true
	case 4:
		return "origin-" + fmt.Sprint(r.Intn(5)), true
	default:
		return map[string]any{"a": map[string]any{"b": "c"}}, true
	}
}

func strList(ss []string) []any {
	out := make([]any, len(ss))
	for i, s := range ss {
		out[i] = s
	}
	return out
}

func nonEmpty(r *core.RNG, fallback, from []string) []string {
	out := core.Subset(r, from, 2, 5)
	if len(out) == 0 {
		out = []string{core.Pick(r, fallback)}
	}
	return out
}

// distinctURIs drops URIs that patch validation would call duplicates of an earlier one in the same patch
// (validation compares the parsed-and-reprinted form).
func distinctURIs(uris []string) []string {
	seen := map[string]bool{}
	var out []string
	for _, u := range uris {
		key := u
		if p, err := url.Parse(u); err == nil {
			key = p.String()
		}
		if seen[key] {
			continue
		}
		seen[key] = true
		out = append(out, u)
	}
	return out
}
