package sim

import (
	"verif/sim/core"
	"verif/sim/ref"
)

func basePlan(prop, profile string, seed uint64, pool *Pool) (*Plan, *core.RNG) {
	r := core.NewRNG(seed).Stream("gen/" + prop)
	p := &Plan{Property: prop, Profile: profile, Seed: seed, CryptoSeed: core.NewRNG(seed).Stream("crypto").Uint64()}
	p.Swarm = GenSwarm(r.Stream("swarm"), pool)
	p.Swarm.Patches = append([]string{}, allActions...)
	p.Swarm.Observers = 1
	return p, r
}

// GenCreateBinding: C03 — create requests of every shape, each enumerated through re-encodings and modifications.
func GenCreateBinding(seed uint64, pool *Pool) *Plan {
	p, r := basePlan("C03", "create-binding", seed, pool)
	for n := r.Range(2, 4); n > 0; n-- {
		d := &genDID{wallet: 0, did: n}
		st := opStep(r, pool, &p.Swarm, d, ref.Create, ref.FNone, true)
		st.Op, st.Name = SEnum, "create-binding"
		st.Builder = core.Pick(r, []string{"lib", "raw", "client", "clientfn", "lib"})
		if st.Builder == "client" || st.Builder == "clientfn" {
			st.Patches = didGoSafe(clientFriendlyPatches(r, pool, ref.Create)).([]any)
		}
		if st.Builder == "lib" && r.Chance(1, 3) && onlyAdds(st.Patches) {
			st.Opaque = true
		}
		p.Steps = append(p.Steps, st)
	}
	return p
}

// GenCAS: C06 — objects of every kind stored on the simulated content-addressed store.
func GenCAS(seed uint64, pool *Pool) *Plan {
	p, r := basePlan("C06", "cas", seed, pool)
	for n := r.Range(2, 4); n > 0; n-- {
		p.Steps = append(p.Steps, Step{Op: SEnum, Name: "cas", Args: map[string]any{"kind": core.Pick(r, []string{"jwk", "delta", "document", "nested", "nested"})}})
	}
	return p
}

// GenJWS: C15 — one signed payload per step, enumerated through all bit flips, all other keys and malformed forms.
func GenJWS(seed uint64, pool *Pool) *Plan {
	p, r := basePlan("C15", "jws", seed, pool)
	t := KeyType(r.Intn(int(numKeyTypes)))
	args := map[string]any{"key": pool.PickOfType(r, t), "len": r.Intn(2048), "json": r.Chance(1, 3)}
	if r.Chance(1, 3) {
		args["kid"] = core.Pick(r, []string{"key-1", "did:example:123#k", "<kid>&"})
	}
	if t != Ed25519 && r.Chance(1, 3) {
		args["search"] = 300
	}
	if rh := r.Stream("hdr"); rh.Chance(1, 3) {
		args["hdr"] = 1 + rh.Intn(len(jwsHeaderVariants))
	}
	p.Steps = append(p.Steps, Step{Op: SEnum, Name: "jws", Args: args})
	return p
}

// GenJWK: C16 — every pool key (variant = pool index) through the JWK encoding and its corruptions.
func GenJWK(seed uint64, variant int, pool *Pool) *Plan {
	p, _ := basePlan("C16", "jwk", seed, pool)
	p.Steps = append(p.Steps, Step{Op: SEnum, Name: "jwk", Args: map[string]any{"key": variant}})
	return p
}

func describeEnumPlan(p *Plan) any {
	var steps []any
	for _, st := range p.Steps {
		steps = append(steps, map[string]any{"enumeration": st.Name, "kind": st.Kind, "builder": st.Builder, "args": st.Args})
	}
	return map[string]any{"seed": p.Seed, "profile": p.Profile, "hashAlgs": p.Swarm.HashAlgs, "steps": steps}
}

func init() {
	enumComponents := func(extra map[string]string) map[string]string {
		m := map[string]string{}
		for k, v := range extra {
			m[k] = v
		}
		return m
	}
	register(&Property{
		ID: "C03", Level: "fault_enumeration", EvalCounter: "modifications_checked",
		Rule: "per sampled create request (built by client.NewCreateRequest with patches or an opaque document, by the harness's own builder, by sidetree.Client; all patch kinds, " +
			"anchor origin absent / string / number / nested object with non-ASCII names, optional type, SHA-256 / SHA-512): accepted => suffix == reference multihash of the RFC 8785 " +
			"suffix data, ID == namespace:suffix, delta hashes to the recorded delta hash; 12 re-serialisations (member order, whitespace, escape style, number spelling) denote the " +
			"same DID; EVERY member of suffix data and delta modified at one point (value change, removal) is rejected or changes the DID. distinct_nontrivial = distinct " +
			"(builder, algorithm, origin?, type?, patch actions) request shapes",
		Cases: func(master uint64, tier string) []Case {
			n := 800
			if tier == "thorough" {
				n = 100000
			}
			return seqCases(master, n, nil)
		},
		Gen: func(c Case, pool *Pool) *Plan { return GenCreateBinding(c.Seed, pool) },
		Components: enumComponents(map[string]string{"operationparser.Parser.Parse (create, non-batch)": "real", "model.GetUniqueSuffix, hashing, canonicalizer": "real",
			"client.NewCreateRequest, sidetree.Client.CreateDID": "real", "re-serialising proxy / corrupting channel": "stub (adversary on the simulated network)"}),
		Assumptions: worldAssumptions,
	})
	register(&Property{
		ID: "C06", Level: "fault_enumeration", EvalCounter: "cas_faults",
		Rule: "per sampled JSON value (JWKs, deltas, documents, nested values with awkward member names and numbers) stored on a simulated content-addressed store under " +
			"CalculateModelMultihash: stored hash == reference; EVERY byte of the stored value x {bit flip, delete, insert} and benign re-encodings read back through " +
			"json.Unmarshal + IsValidModelMultihash (succeeds iff the value is still equal); every character of the hash string changed, every truncation, padding, other alphabet, " +
			"wrong length field, digest shorter / longer, every unsupported code < 0x60, the other supported algorithm; GetMultihashCode / IsComputedUsingMultihashAlgorithms vs the prefix. " +
			"distinct_nontrivial = distinct (kind, algorithm, size class) objects",
		Cases: func(master uint64, tier string) []Case {
			n := 600
			if tier == "thorough" {
				n = 25000
			}
			return seqCases(master, n, nil)
		},
		Gen: func(c Case, pool *Pool) *Plan { return GenCAS(c.Seed, pool) },
		Components: enumComponents(map[string]string{"hashing.CalculateModelMultihash / IsValidModelMultihash / GetMultihashCode / IsComputedUsingMultihashAlgorithms": "real",
			"docutil.CalculateID, canonicalizer, go-multihash": "real", "content-addressed store with bit rot / torn objects": "stub (SimCAS)"}),
		Assumptions: worldAssumptions,
	})
	register(&Property{
		ID: "C15", Level: "fault_enumeration", EvalCounter: "jws_faults",
		Rule: "per sampled compact JWS produced by signutil.SignPayload with ecsigner / edsigner (five key types, payloads 1 B - 2 KB, optional kid, seeded crypto randomness, seeded " +
			"search for signature halves with a leading zero byte): verifies under the matching JWK and returns the payload; EVERY bit of the decoded header, payload and signature " +
			"flipped (header flips that leave the decoded content equal are excluded), every other pool key of the same and of other types, malformed splits, wrong-length " +
			"signatures, unsupported kty / crv: all must fail. distinct_nontrivial = distinct (key type, kid?, payload size class) bases",
		Cases: func(master uint64, tier string) []Case {
			n := 96
			if tier == "thorough" {
				n = 1600
			}
			return seqCases(master, n, nil)
		},
		Gen:            func(c Case, pool *Pool) *Plan { return GenJWS(c.Seed, pool) },
		RequiredProbes: map[string][]string{"quick": {"double_leading_zero_sig_P-256", "double_leading_zero_sig_P-384", "double_leading_zero_sig_P-521", "double_leading_zero_sig_secp256k1", "jws_extra_protected_headers"},
			"thorough": {"leading_zero_sig_P-256", "leading_zero_sig_P-384", "leading_zero_sig_P-521", "leading_zero_sig_secp256k1",
				"double_leading_zero_sig_P-256", "double_leading_zero_sig_P-384", "double_leading_zero_sig_P-521", "double_leading_zero_sig_secp256k1", "jws_extra_protected_headers"}},
		Components: enumComponents(map[string]string{"signutil.SignPayload, ecsigner.Signer, edsigner.Signer": "real", "jwsutil.VerifyJWS / ParseJWS / VerifySignature": "real",
			"pubkey.GetPublicKeyJWK, go-jose, btcec": "real", "channel flipping bits of the three segments": "stub (adversary)"}),
		Assumptions: append([]string{"ECDSA (r, n-s) malleability is not a single-bit change and is not generated"}, worldAssumptions...),
	})
	register(&Property{
		ID: "C16", Level: "fault_enumeration", EvalCounter: "jwk_faults",
		Rule: "every key of the seeded pool (6 per type plus, per EC curve, 2 keys with a leading-zero X and 2 with a leading-zero Y found by seeded search): crypto key -> " +
			"pubkey.GetPublicKeyJWK -> wire -> jwsutil.JWK.UnmarshalJSON / GetED25519PublicKey gives the same key, kty / crv right, coordinates at full curve width (compared with an " +
			"independently built JWK), commitment equal at wallet, node and reference; on the wire JWK EVERY coordinate bit flipped, leading byte stripped, zero prepended, truncation, " +
			"empty, wrong crv, swapped coordinates: rejected. distinct_nontrivial = distinct pool keys",
		Cases: func(master uint64, tier string) []Case {
			if tier == "thorough" {
				// a larger pool drawn from the master seed: 1000 keys per type plus 60 + 60 leading-zero keys per curve
				return seqCases(master, 1, func(int) int { return 5*1000 + 4*120 + 14 })
			}
			return seqCases(master, 1, func(int) int { return 70 })
		},
		Pool: func(tier string) [3]uint64 {
			if tier == "thorough" {
				return [3]uint64{0xC0FFEE + 16, 1000, 60}
			}
			return DefaultPool
		},
		Gen:            func(c Case, pool *Pool) *Plan { return GenJWK(c.Seed, c.Variant, pool) },
		RequiredProbes: map[string][]string{"quick": {"leading_zero_x0_secp256k1", "leading_zero_y0_secp256k1", "leading_zero_x0_P-256", "leading_zero_x0_P-521", "leading_zero_x0y0_secp256k1", "leading_zero_x0y0_P-384"}, "thorough": {"leading_zero_x0_secp256k1", "leading_zero_y0_secp256k1", "leading_zero_x0_P-384", "leading_zero_y0_P-521"}},
		Components: enumComponents(map[string]string{"pubkey.GetPublicKeyJWK": "real", "jwsutil.JWK.UnmarshalJSON / MarshalJSON, GetED25519PublicKey, VerifySignature": "real",
			"commitment.GetCommitment": "real", "wire between wallet and node corrupting the JWK": "stub (adversary)"}),
		Assumptions: worldAssumptions,
	})
}
