package sim

import (
	"fmt"
	"runtime/debug"
	"strings"

	"verif/sim/core"
)

// Case identifies one generated run of a property.
type Case struct {
	Seed    uint64
	Variant int
}

// Property ties a property id to its generator, executor and bookkeeping.
type Property struct {
	ID    string
	Level string // exploration | fault_enumeration
	Rule  string // how cases are generated and what makes one non-trivial / distinct
	// Cases returns the deterministic case list for (master seed, tier).
	Cases func(master uint64, tier string) []Case
	Gen   func(c Case, pool *Pool) *Plan
	// Exec runs a plan (nil: world executor).
	Exec func(p *Plan, pool *Pool, t *core.Trace)
	// EvalCounter names the trace counter reported as "evaluations".
	EvalCounter string
	Components  map[string]string // real / stub
	// Pool names the key pool for a tier (nil: default pool).
	Pool func(tier string) [3]uint64
	// NoRecheck: re-execution fingerprints are not compared (C17: output that depends on Go map iteration order
	// is itself the violation class being looked for).
	NoRecheck bool
	// Cold marks cases that must be the only case of a fresh process (the driver runs them one process each).
	Cold func(c Case) bool
	// RequiredProbes lists, per tier, probes / fault kinds / counters that must be non-zero (reach).
	RequiredProbes map[string][]string
	Assumptions    []string
}

var Properties = map[string]*Property{}

func register(p *Property) { Properties[p.ID] = p }

func seqCases(master uint64, n int, variantsOf func(i int) int) []Case {
	var out []Case
	root := core.NewRNG(master).Stream("cases")
	for i := 0; i < n; i++ {
		seed := root.Uint64() >> 1
		v := 1
		if variantsOf != nil {
			v = variantsOf(i)
		}
		for j := 0; j < v; j++ {
			out = append(out, Case{Seed: seed, Variant: j})
		}
	}
	return out
}

// ExecPlan runs one plan to completion and returns its trace. Any panic escaping the code under test is a
// C19 violation (asserted in every profile).
func ExecPlan(p *Plan, pool *Pool, verbose bool) (t *core.Trace) {
	pool = PoolFor(p.Pool)
	t = core.NewTrace()
	t.Verbose = verbose
	prop := Properties[p.Property]
	defer func() {
		if r := recover(); r != nil {
			stack := string(debug.Stack())
			site, full := panicSite(stack)
			if strings.Contains(full, "verif/sim") {
				// a harness bug must never be reported as a finding
				panic(fmt.Sprintf("harness panic: %v\n%s", r, stack))
			}
			t.Violate(&core.Violation{Property: "C19", Oracle: "C19/panic", Signature: "C19/panic/" + site,
				Detail: fmt.Sprintf("panic escaped during %s run: %v at %s", p.Property, r, site)})
		}
	}()
	if prop != nil && prop.Exec != nil {
		prop.Exec(p, pool, t)
		return t
	}
	w := NewWorld(p, pool, t)
	configureWorld(w)
	w.Run()
	if p.Profile == "compose" {
		t.Samples = append(t.Samples, describeComposePlan(p))
	} else if p.Profile == "hostile" {
		t.Samples = append(t.Samples, map[string]any{"seed": p.Seed, "profile": p.Profile, "steps": p.Steps})
	} else if p.Profile == "longform" {
		t.Samples = append(t.Samples, describeLongFormPlan(p))
	} else if len(p.Steps) > 0 && p.Steps[0].Op == SEnum {
		t.Samples = append(t.Samples, describeEnumPlan(p))
	} else {
		t.Samples = append(t.Samples, describePlan(p))
	}
	return t
}

// panicSite extracts the innermost non-runtime frame of a stack dump as pkg.Func.
func panicSite(stack string) (string, string) {
	lines := strings.Split(stack, "\n")
	seenPanic := false
	for _, l := range lines {
		if strings.HasPrefix(l, "panic(") {
			seenPanic = true
			continue
		}
		if !seenPanic || strings.HasPrefix(l, "\t") || strings.HasPrefix(l, "runtime.") || l == "" {
			continue
		}
		fn := l
		if i := strings.LastIndex(fn, "("); i > 0 {
			fn = fn[:i]
		}
		full := fn
		if i := strings.LastIndex(fn, "/"); i >= 0 {
			fn = fn[i+1:]
		}
		return fn, full
	}
	return "unknown", ""
}

// configureWorld switches oracles on according to the property the plan belongs to.
func configureWorld(w *World) {
	switch w.Plan.Property {
	case "C01":
		w.CheckFold = true
	case "C12":
		w.CheckInputs = true
	case "C04":
		w.CheckChain = true
		w.CheckFold = true
	case "C08":
		w.CheckIntake, w.CheckFold = true, true
	case "C09":
		w.CheckFold, w.CheckWindowArgs = true, true
	case "C18":
		w.CheckResolve = true
	}
}

var worldComponents = map[string]string{
	"operationparser.Parser (Parse, ParseOperation, GetRevealValue, GetCommitment)": "real",
	"operationapplier.Applier":                                   "real",
	"doccomposer.DocumentComposer":                               "real",
	"client.New*Request builders, ecsigner, edsigner, pubkey":    "real",
	"model.GetAnchoredOperation":                                 "real",
	"commitment / hashing / canonicalizer / jwsutil":             "real",
	"wallet key storage and clock":                               "stub",
	"REST endpoint (intake) and server clock":                    "stub",
	"ledger / batch writer (anchoring time, number, references)": "stub",
	"operation store, observer processor, disk, network":         "stub",
}

var worldAssumptions = []string{
	"the node around the library (processor, ledger, store, endpoint) is a stub; properties are observed at the library API",
	"reference state machine, RFC 8785 / multihash / RFC 6902 reference implementations are trusted oracle code",
	"go1.26.8 standard library (crypto, encoding/json) is trusted; crypto randomness is seeded with testing/cryptotest",
}

func init() {
	register(&Property{
		ID: "C12", Level: "exploration", EvalCounter: "input_snapshots_compared",
		Rule: "every Apply of the C01 history profile (all failure classes, crash/restart re-folds) and every ApplyPatches of the composer profile (including lists that fail " +
			"at the k-th patch): deep snapshot (canonical encoding incl. nested document, operation bytes, patch values) of previous state, operation and patches before == after; " +
			"every earlier version retained by the observer is re-verified at the end of the run; error => no state / no document. distinct_nontrivial = distinct per-DID histories " +
			"and distinct patch-action sequences",
		Cases: func(master uint64, tier string) []Case {
			n := 6000
			if tier == "thorough" {
				n = 400000
			}
			return seqCases(master, n, nil)
		},
		Gen: func(c Case, pool *Pool) *Plan {
			if c.Seed%2 == 0 {
				return GenFold("C12", c.Seed, 0, pool)
			}
			return GenCompose("C12", c.Seed, pool)
		},
		RequiredProbes: map[string][]string{"quick": {"canonical_reference_among_equivalent"}, "thorough": {"canonical_reference_among_equivalent"}},
		Components:     worldComponents,
		Assumptions: worldAssumptions,
	})
	register(&Property{
		ID: "C18", Level: "exploration", EvalCounter: "resolutions_checked",
		Rule: "observers answer resolution requests at arbitrary points of seeded histories (documents built from validated keys of all types x purpose subsets, services, " +
			"also-known-as, other members) with every transformer option combination (@base, published / unpublished operation lists, method contexts, published vs unpublished " +
			"info); operation lists are handed over shuffled, with duplicates sharing a canonical reference and (time, number) pairs that disagree; document and metadata are " +
			"compared member by member with the reference resolution; one transformer per option set serves the whole run (1-7 method contexts, palette of option sets per run) and every " +
			"result returned is retained and read again at the end of the run (a result is a value, not a view of the transformer). distinct_nontrivial = distinct (options, #keys, #services, #operations) tuples",
		Cases: func(master uint64, tier string) []Case {
			n := 4000
			if tier == "thorough" {
				n = 200000
			}
			return seqCases(master, n, nil)
		},
		Gen:            func(c Case, pool *Pool) *Plan { return GenResolve(c.Seed, pool) },
		RequiredProbes: map[string][]string{"quick": {"transformer_reused", "retained_results_rechecked"}, "thorough": {"transformer_reused", "retained_results_rechecked"}},
		Components: func() map[string]string {
			m := map[string]string{"didtransformer.Transformer, metadata.CreateDocumentMetadata, docutil.GetTransformationInfoFor*": "real"}
			for k, v := range worldComponents {
				m[k] = v
			}
			return m
		}(),
		Assumptions: worldAssumptions,
	})
	register(&Property{
		ID: "C01", Level: "exploration", EvalCounter: "fold_steps_checked",
		Rule: "seeded histories (1-4 DIDs, 2-30 operations, each valid or carrying one labelled failure class, all key types, drawn protocol config, " +
			"raw and chain processors, crash/restart, torn/lost writes, block drop/dup/delay) plus an enumerated class x position sub-sweep over valid base " +
			"lifecycles; after every Apply all 15 fields and the verdict are compared with the reference state machine. distinct_nontrivial = distinct per-DID " +
			"histories (sequence of kind:class:verdict) with at least one accepted operation",
		Cases: func(master uint64, tier string) []Case {
			n, sweeps := 3000, 16
			if tier == "thorough" {
				n, sweeps = 300000, 1500
			}
			cs := seqCases(master, n, nil)
			sw := seqCases(master^0x5eed, sweeps, func(int) int { return FoldSweepVariants })
			for _, c := range sw {
				if c.Variant > 0 {
					cs = append(cs, c)
				}
			}
			return cs
		},
		Gen:         func(c Case, pool *Pool) *Plan { return GenFold("C01", c.Seed, c.Variant, pool) },
		Components:  worldComponents,
		Assumptions: worldAssumptions,
	})
}
