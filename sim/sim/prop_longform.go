package sim

import (
	"encoding/json"
	"fmt"
	"net/http"
	"os"
	"sort"
	"strings"

	docdid "github.com/trustbloc/did-go/doc/did"
	vdrapi "github.com/trustbloc/did-go/vdr/api"
	"github.com/trustbloc/kms-go/doc/jose/jwk/jwksupport"

	"github.com/trustbloc/sidetree-go/pkg/vdr/sidetreelongform"
	"github.com/trustbloc/sidetree-go/pkg/vdr/sidetreelongform/dochandler"

	"verif/sim/core"
	"verif/sim/ref"
)

// trapTransport fails the run if the library ever uses the network: long-form DIDs resolve offline.
type trapTransport struct{ hits int }

func (t *trapTransport) RoundTrip(*http.Request) (*http.Response, error) {
	t.hits++
	return nil, fmt.Errorf("simulated: no network in this deployment")
}

var purposeOrder = []string{"authentication", "assertionMethod", "capabilityDelegation", "capabilityInvocation", "keyAgreement"}

func relationshipOf(p string) docdid.VerificationRelationship {
	switch p {
	case "authentication":
		return docdid.Authentication
	case "assertionMethod":
		return docdid.AssertionMethod
	case "capabilityDelegation":
		return docdid.CapabilityDelegation
	case "capabilityInvocation":
		return docdid.CapabilityInvocation
	}
	return docdid.KeyAgreement
}

// buildDIDDoc turns a generic key / service / also-known-as spec into a did-go document and the internal Sidetree
// document the create request is expected to carry.
func (w *World) buildDIDDoc(keys, services []any, aka []string) (*docdid.Doc, map[string]any, error) {
	d := &docdid.Doc{AlsoKnownAs: aka}
	internal := map[string]any{}
	var ikeys []any
	for _, k := range keys {
		km := k.(map[string]any)
		id, _ := km["id"].(string)
		typ, _ := km["type"].(string)
		key := w.Pool.Get(toInt(km["key"]) % len(w.Pool.Keys))
		var vm *docdid.VerificationMethod
		entry := map[string]any{"id": id, "type": typ}
		if b, _ := km["b58"].(bool); b {
			vm = docdid.NewVerificationMethodFromBytes("#"+id, typ, "", key.X)
			entry["publicKeyBase58"] = b58(key.X)
		} else {
			j, err := jwksupport.JWKFromKey(key.Public())
			if err != nil {
				return nil, nil, err
			}
			vm, err = docdid.NewVerificationMethodFromJWK("#"+id, typ, "", j)
			if err != nil {
				return nil, nil, err
			}
			entry["publicKeyJwk"] = docJWK(key)
		}
		want := map[string]bool{}
		for _, p := range listOf(km["purposes"]) {
			s, _ := p.(string)
			want[s] = true
		}
		var ps []any
		for _, p := range purposeOrder {
			if !want[p] {
				continue
			}
			ps = append(ps, p)
			v := *docdid.NewReferencedVerification(vm, relationshipOf(p))
			switch p {
			case "authentication":
				d.Authentication = append(d.Authentication, v)
			case "assertionMethod":
				d.AssertionMethod = append(d.AssertionMethod, v)
			case "capabilityDelegation":
				d.CapabilityDelegation = append(d.CapabilityDelegation, v)
			case "capabilityInvocation":
				d.CapabilityInvocation = append(d.CapabilityInvocation, v)
			default:
				d.KeyAgreement = append(d.KeyAgreement, v)
			}
		}
		entry["purposes"] = ps
		ikeys = append(ikeys, entry)
	}
	if len(ikeys) > 0 {
		internal[ref.MPublicKey] = ikeys
	}
	var isvcs []any
	for _, s := range services {
		sm := s.(map[string]any)
		d.Service = append(d.Service, *toClientService(sm, nil))
		isvcs = append(isvcs, sm)
	}
	if len(isvcs) > 0 {
		internal[ref.MService] = isvcs
	}
	if len(aka) > 0 {
		internal[ref.MAlsoKnownAs] = strList(aka)
	}
	return d, internal, nil
}

// sortDocLists sorts verification methods, services and relationship lists by id: documents that differ only in
// the order of these lists are equivalent.
func sortDocLists(doc map[string]any) map[string]any {
	out := ref.Clone(doc).(map[string]any)
	for k, v := range out {
		l, ok := v.([]any)
		if !ok || k == "alsoKnownAs" {
			continue
		}
		if k == "@context" {
			// the DID context (and @base) come first; the key-type contexts follow in the order keys are listed
			var head, tail []any
			for _, e := range l {
				if s, isStr := e.(string); isStr && s != ref.CtxDID {
					tail = append(tail, e)
				} else {
					head = append(head, e)
				}
			}
			sort.SliceStable(tail, func(i, j int) bool { return tail[i].(string) < tail[j].(string) })
			out[k] = append(head, tail...)
			continue
		}
		sort.SliceStable(l, func(i, j int) bool { return sortKey(l[i]) < sortKey(l[j]) })
	}
	return out
}

func sortKey(v any) string {
	switch x := v.(type) {
	case string:
		return x
	case map[string]any:
		s, _ := x["id"].(string)
		return s
	}
	return ""
}

func (w *World) execLongForm(stepIdx int, st *Step) {
	method, _ := st.Args["method"].(string)
	if method == "" {
		method = "ion"
	}
	ns := "did:" + method
	trap := &trapTransport{}
	saved := http.DefaultTransport
	http.DefaultTransport = trap
	defer func() { http.DefaultTransport = saved }()

	aka := strsOf(st.Args["aka"])
	doc, internal, err := w.buildDIDDoc(listOf(st.Args["keys"]), listOf(st.Args["services"]), aka)
	if err != nil {
		w.T.Probe("longform_doc_build_failed")
		return
	}
	explicit, _ := st.Args["explicitKeys"].(bool)
	var opts []vdrapi.DIDMethodOption
	var updKey, recKey *Key
	if explicit {
		updKey = w.Pool.Get(toInt(st.Args["upd"]) % len(w.Pool.Keys))
		recKey = w.Pool.Get(toInt(st.Args["rec"]) % len(w.Pool.Keys))
		if updKey.Idx == recKey.Idx {
			recKey = otherKeySameType(w, recKey.Idx, 1)
		}
		opts = append(opts, vdrapi.WithOption(sidetreelongform.UpdatePublicKeyOpt, updKey.Public()),
			vdrapi.WithOption(sidetreelongform.RecoveryPublicKeyOpt, recKey.Public()))
	}
	newVDR := func() *sidetreelongform.VDR {
		v, verr := sidetreelongform.New(sidetreelongform.WithDIDMethod(method))
		if verr != nil {
			panic("harness: cannot create VDR: " + verr.Error())
		}
		return v
	}
	creator := newVDR()
	res, err := creator.Create(doc, opts...)
	w.T.Count("longform_creates", 1)
	nkeys := len(listOf(st.Args["keys"]))
	w.T.Mark(fmt.Sprintf("lf:%s:%d:%d:%d:%v", method, nkeys, len(doc.Service), len(aka), explicit))
	if err != nil && strings.Contains(err.Error(), "exceeds maximum delta size") {
		// the long-form protocol limits the delta: a document that does not fit is refused by design
		w.T.Probe("longform_document_too_large")
		return
	}
	if err != nil || res == nil || res.DIDDocument == nil {
		w.violate("C17/create-failed", "", "VDR.Create failed on a valid document: %v", err)
		return
	}
	long := res.DIDDocument.ID
	parts := strings.Split(long, ":")
	if !strings.HasPrefix(long, ns+":") || len(parts) < 4 {
		w.violate("C17/created-id", "", "Create returned id %q, not a long-form DID of %s", long, ns)
		return
	}
	suffix, state := parts[len(parts)-2], parts[len(parts)-1]
	short := ns + ":" + suffix

	// ---- determinism: the same document and keys always give the same DID (fresh and shared instances)
	if explicit {
		shared := newVDR()
		for i := 0; i < 16; i++ {
			v := shared
			if i%2 == 0 {
				v = newVDR()
			}
			again, aerr := v.Create(doc, opts...)
			w.T.Count("longform_repeated_creates", 1)
			if aerr != nil || again.DIDDocument == nil {
				w.violate("C17/create-failed", "", "repeated Create failed: %v", aerr)
				break
			}
			if again.DIDDocument.ID != long {
				w.violate("C17/create-not-deterministic", fmt.Sprintf("keys=%d", min(nkeys, 2)), "the same document (%d keys) and the same update / recovery keys gave two DIDs:\n %s\n %s", nkeys, long, again.DIDDocument.ID)
				break
			}
		}
	}

	// ---- another instance resolves it offline to what was created
	reader := newVDR()
	rr, rerr := reader.Read(long)
	if rerr != nil || rr == nil || rr.DIDDocument == nil {
		w.violate("C17/read-failed", "", "VDR.Read of a freshly created long-form DID failed: %v", rerr)
		return
	}
	if rr.DIDDocument.ID != long {
		w.violate("C17/read-id", "", "Read returned id %q, want the requested long-form DID", rr.DIDDocument.ID)
	}
	handler, herr := dochandler.New(ns)
	if herr != nil {
		panic("harness: dochandler.New: " + herr.Error())
	}
	result, derr := handler.ResolveDocument(long)
	if derr != nil {
		w.violate("C17/resolve-failed", "", "ResolveDocument failed: %v", derr)
		return
	}
	wantDoc, werr := ref.ExternalDocument(internal, long, true, nil)
	if werr == nil {
		got := sortDocLists(ref.Norm(map[string]any(result.Document)).(map[string]any))
		if !ref.Equal(got, sortDocLists(wantDoc)) {
			w.violate("C17/document", firstDiffMember(got, sortDocLists(wantDoc)), "resolved document %s, want (up to list order) %s", clipN(ref.JCS(got), 900), clipN(ref.JCS(sortDocLists(wantDoc)), 900))
		}
	}
	mdBytes, _ := json.Marshal(result.DocumentMetadata)
	md, _ := ref.Parse(mdBytes)
	mdm, _ := md.(map[string]any)
	eq := strsOf(mdm["equivalentId"])
	if len(eq) == 0 || eq[0] != short {
		w.violate("C17/equivalent-id", "", "metadata equivalentId %v does not name the short form %s", eq, short)
	}
	if explicit {
		mm, _ := mdm["method"].(map[string]any)
		wantU, wantR := ref.Commitment(ref.SHA256, updKey.RefJWK("")), ref.Commitment(ref.SHA256, recKey.RefJWK(""))
		if mm["updateCommitment"] != wantU || mm["recoveryCommitment"] != wantR {
			w.violate("C17/commitments", "", "metadata commitments %v / %v, want %s / %s", mm["updateCommitment"], mm["recoveryCommitment"], wantU, wantR)
		}
		if mm["published"] != false {
			w.violate("C17/published-flag", "", "a long-form DID that was never anchored is reported as published")
		}
	}

	// ---- enumerated tampering of the DID string
	n := 0
	mustReject := func(class, did string) {
		n++
		if st.Index > 0 && st.Index != n {
			return
		}
		w.T.Count("longform_faults", 1)
		w.T.Fault("lf_" + strings.SplitN(class, "@", 2)[0])
		if r2, e2 := handler.ResolveDocument(did); e2 == nil {
			if os.Getenv("STSIM_DEBUG") != "" {
				fmt.Fprintf(os.Stderr, "TAMPERED %s\nORIGINAL %s\n", did, long)
			}
			w.violate("C17/tampered-did-resolved", strings.SplitN(class, "@", 2)[0], "%s: handler of %s resolved %q (created: %q) to %s", class, ns, clipN([]byte(did), 160), clipN([]byte(long), 160), r2.Document.ID())
		}
	}
	alpha := "ABCDEFGHIJKLMNOPQRSTUVWXYZabcdefghijklmnopqrstuvwxyz0123456789-_:"
	r := core.NewRNG(w.Plan.Seed).Stream(fmt.Sprintf("c17/%d", stepIdx))
	for i := range long {
		b := []byte(long)
		c := alpha[r.Intn(len(alpha))]
		if c == b[i] {
			c = alpha[(strings.IndexByte(alpha, c)+1)%len(alpha)]
		}
		b[i] = c
		class := "char-in-initial-state"
		switch {
		case i < len(ns)+1:
			class = "char-in-namespace"
		case i < len(short)+1:
			class = "char-in-suffix"
		}
		mustReject(fmt.Sprintf("%s@%d:%c->%c", class, i, long[i], c), string(b))
	}
	raw, derr2 := ref.UnB64(state)
	if derr2 == nil {
		if v, perr := ref.Parse(raw); perr == nil {
			for i := 0; i < 8; i++ {
				re := reencode(r, v)
				if string(re) == string(raw) {
					continue
				}
				mustReject("initial-state-reencoded", short+":"+ref.B64(re))
			}
		}
		mustReject("initial-state-padded", long+"=")
		mustReject("initial-state-padded", long+"==")
		std := strings.NewReplacer("-", "+", "_", "/").Replace(state)
		if std != state {
			mustReject("initial-state-std-alphabet", short+":"+std)
		}
		// non-canonical tail bits of the last character (same decoded bytes)
		if len(state)%4 != 0 {
			idx := strings.IndexByte(alpha, state[len(state)-1])
			if idx >= 0 && idx < 64 {
				alt := []byte(state)
				alt[len(alt)-1] = alpha[idx^1]
				if d2, e := ref.UnB64(string(alt)); e != nil || string(d2) == string(raw) {
					mustReject("initial-state-tail-bits", short+":"+string(alt))
				}
			}
		}
		mustReject("initial-state-truncated", short+":"+state[:len(state)-4])
		mustReject("initial-state-empty", short+":")
	}
	// DID URL syntax and stray characters after the DID: the string no longer ends with the initial state
	for _, tail := range []string{"#", "#key-1", "?service=files", "?versionId=1", "/path", ";a=b", " ", "\n", "\r\n", "%20", ".", ":"} {
		mustReject("did-url-tail", long+tail)
	}
	mustReject("did-url-head", " "+long)
	// empty segments: further delimiters between the suffix and the initial state, after the initial state
	for _, v := range []string{short + "::" + state, short + ":::" + state, short + ":" + state + ":", short + ":" + state + "::", short + ": :" + state} {
		mustReject("empty-segment", v)
	}
	// the handler's own namespace (with and without its colon) spliced into the DID after the leading one: a parser that removes
	// or searches for the namespace anywhere in the string sees the genuine DID again
	for _, at := range []int{len(ns) + 2, len(ns) + 1 + len(suffix)/2, len(short), len(short) + 2, len(short) + 1 + len(state)/2, len(long) - 1} {
		if at <= len(ns)+1 || at > len(long) {
			continue
		}
		mustReject("namespace-spliced", long[:at]+ns+":"+long[at:])
		mustReject("namespace-spliced", long[:at]+ns+long[at:])
	}
	mustReject("short-form", short)
	mustReject("suffix-swapped", ns+":"+ref.HashBytes(ref.SHA256, []byte("another"))+":"+state)
	mustReject("extra-segment", short+":extra:"+state)
	mustReject("empty", "")
	mustReject("namespace-only", ns)

	// ---- mis-routing: DIDs and handlers whose namespaces are related by prefix
	for _, other := range []string{ns + "x", ns[:len(ns)-1], ns + "-x", "x" + ns, strings.ToUpper(ns), ns + ":sub"} {
		h2, e := dochandler.New(other)
		if e != nil {
			continue
		}
		w.T.Count("longform_faults", 1)
		w.T.Fault("lf_misrouted")
		// the DID of this method handed to a handler of a look-alike method
		if other != ns+":sub" && !strings.HasPrefix(long, other+":") {
			if r2, e2 := h2.ResolveDocument(long); e2 == nil {
				w.violate("C17/foreign-did-resolved", "handler-has-lookalike-namespace", "handler of %s resolved %s (id %s)", other, clipN([]byte(long), 80), r2.Document.ID())
			}
		}
		// a DID of the look-alike method handed to this method's handler
		foreign := other + ":" + suffix + ":" + state
		if !strings.HasPrefix(foreign, ns+":") {
			if r2, e2 := handler.ResolveDocument(foreign); e2 == nil {
				w.violate("C17/foreign-did-resolved", "did-has-lookalike-namespace", "handler of %s resolved the foreign DID %s (id %s)", ns, clipN([]byte(foreign), 80), r2.Document.ID())
			}
		}
	}
	if trap.hits > 0 {
		w.violate("C17/network-used", "", "the library made %d network request(s) while creating / resolving a long-form DID", trap.hits)
	}
	// the create request processed by a handler returns the same long-form DID
	if raw != nil {
		if pr, perr := handler.ProcessOperation(raw); perr != nil {
			w.violate("C17/process-operation", "", "ProcessOperation refused the create request embedded in the DID: %v", perr)
		} else if pr.Document.ID() != long {
			w.violate("C17/process-operation-id", "", "ProcessOperation returned %s, want %s", pr.Document.ID(), long)
		}
	}
}

// GenLongForm generates C17 plans.
func GenLongForm(seed uint64, pool *Pool) *Plan {
	p, r := basePlan("C17", "longform", seed, pool)
	var keys []any
	ids := append([]string{}, keyIDs...)
	core.Shuffle(r, ids)
	for i := r.Intn(4); i > 0; i-- {
		kind := core.Pick(r, docKeyKinds[:5])
		t := core.Pick(r, kind.keyTypes)
		ps := core.Subset(r, kind.purposes, 1, 2)
		if len(ps) == 0 {
			ps = []string{kind.purposes[0]}
		}
		keys = append(keys, map[string]any{"id": ids[i], "type": kind.typ, "key": pool.PickOfType(r, t), "b58": kind.b58, "purposes": strList(ps)})
	}
	if r.Chance(1, 4) {
		// many small keys (as many as the delta limit admits); early keys are referenced again from relationships that
		// are processed after the later keys first appear
		keys = nil
		n := r.Range(6, 11)
		for i := 0; i < n; i++ {
			ps := []string{"authentication"}
			if i < 3 && r.Chance(2, 3) {
				ps = append(ps, core.Pick(r, []string{"assertionMethod", "capabilityDelegation", "capabilityInvocation"}))
			}
			keys = append(keys, map[string]any{"id": fmt.Sprintf("a%d", i), "type": "Ed25519VerificationKey2018", "key": pool.PickOfType(r, Ed25519), "b58": true, "purposes": strList(ps)})
		}
	}
	var svcs []any
	for _, id := range core.Subset(r, svcIDs, 1, 3) {
		if len(keys) < 6 {
			svcs = append(svcs, didGoSafe(genService(r, id)))
		}
	}
	aka := distinctURIs(core.Subset(r, akaURIs, 1, 3))
	if len(keys) >= 6 {
		aka = nil
	}
	if len(keys) == 0 && len(svcs) == 0 {
		svcs = append(svcs, didGoSafe(genService(r, "s1")))
	}
	args := map[string]any{"keys": keys, "services": svcs, "aka": strList(aka), "explicitKeys": r.Chance(3, 4),
		"upd": r.Intn(len(pool.Keys)), "rec": r.Intn(len(pool.Keys)), "method": core.Pick(r, []string{"ion", "ion", "orb", "x", "sidetree-test"})}
	p.Steps = append(p.Steps, Step{Op: SLongForm, Args: args})
	return p
}

func describeLongFormPlan(p *Plan) any {
	return map[string]any{"seed": p.Seed, "profile": p.Profile, "document": p.Steps[0].Args}
}

func init() {
	register(&Property{
		ID: "C17", Level: "fault_enumeration", EvalCounter: "longform_faults", NoRecheck: true,
		Rule: "per sampled did-go document (0-3 keys of all types, single- and multi-purpose, JWK and base58 material, 0-3 services, also-known-as; explicit or default seeded-random " +
			"update / recovery keys; several method names): VDR.Create, 16 repeated creations on fresh and shared instances (same DID), VDR.Read and DocumentHandler.ResolveDocument " +
			"on other instances with the network trapped (document equivalent to the supplied one by the reference resolution, id, equivalentId, commitments), ProcessOperation of " +
			"the embedded request; EVERY character of the DID replaced, initial state re-encoded / padded / other alphabet / tail bits / truncated, short form, swapped suffix, and " +
			"handlers / DIDs whose namespaces are related by prefix. distinct_nontrivial = distinct (method, #keys, #services, #aka, explicit keys?) documents",
		Cases: func(master uint64, tier string) []Case {
			n := 400
			if tier == "thorough" {
				n = 25000
			}
			return seqCases(master, n, nil)
		},
		Gen: func(c Case, pool *Pool) *Plan { return GenLongForm(c.Seed, pool) },
		Components: map[string]string{"sidetreelongform.VDR (Create, Read)": "real", "dochandler.DocumentHandler (ResolveDocument, ProcessOperation)": "real",
			"sidetree.Client.CreateDID, operationparser.ParseDID, docutil.GetCreateResult, didtransformer": "real", "did-go document model / resolution parser": "real (third party)",
			"network": "stub (trap: any use fails the run)", "wall clock": "simulated (synctest bubble)", "crypto/rand": "seeded (testing/cryptotest)"},
		Assumptions: append([]string{"Go map iteration order cannot be seeded: a determinism violation is reproducible by class (the replay fails again with high probability), not byte for byte"}, worldAssumptions...),
	})
}
