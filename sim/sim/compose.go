package sim

import (
	"encoding/json"
	"fmt"
	"strings"

	"github.com/trustbloc/sidetree-go/pkg/document"
	"github.com/trustbloc/sidetree-go/pkg/patch"
	"github.com/trustbloc/sidetree-go/pkg/versions/1_0/operationparser/patchvalidator"

	"verif/sim/ref"
)

// execCompose runs one direct DocumentComposer call: the starting document is reached from the empty
// document by the "setup" patches (applied by the library itself and cross-checked), then st.Patches are
// validated and applied. Which oracles look at the outcome depends on the property of the plan.
func (w *World) execCompose(st *Step) {
	setup, _ := w.resolvePatches(st.Args["setup"]).([]any)
	patches, _ := w.resolvePatches(anyList(st.Patches)).([]any)
	prop := w.Prop

	refDoc0, err := ref.Compose(map[string]any{}, setup)
	if err != nil {
		w.T.Probe("compose_setup_not_applicable")
		return
	}
	libSetup, err := toPatches(setup)
	if err != nil {
		w.T.Probe("compose_setup_unparsable")
		return
	}
	libDoc0, err := w.Composer.ApplyPatches(make(document.Document), libSetup)
	if err != nil {
		if prop == "C10" {
			w.violate("C10/setup-refused", "", "composer refused a setup list the reference applies: %v", err)
		}
		return
	}
	if !ref.DocEqual(normDoc(libDoc0), refDoc0) {
		if prop == "C10" {
			w.violate("C10/setup-differs", "", "setup: composer %s, reference %s", clip(ref.JCS(normDoc(libDoc0))), clip(ref.JCS(refDoc0)))
		}
		return
	}

	libPatches, err := toPatches(patches)
	if ctor, _ := st.Args["ctor"].(bool); ctor {
		// the same list built with the patch constructors (typed action values) instead of parsed from bytes
		libPatches, err = toPatchesViaConstructors(patches)
		w.T.Probe("compose_patches_built_with_constructors")
	}
	if err != nil {
		w.T.Probe("compose_patch_unparsable")
		return
	}
	allValid := true
	for _, lp := range libPatches {
		if verr := patchvalidator.Validate(lp); verr != nil {
			allValid = false
		}
	}
	if !allValid {
		w.T.Probe("compose_patch_rejected_by_validator")
		if prop == "C10" || prop == "C11" {
			// C10 quantifies over validated patches; for C11 a rejected list is the mechanism working
			w.T.Count("lists_rejected_by_validation", 1)
			if prop == "C10" {
				return
			}
			return
		}
	}

	docBefore := snapshotAny(libDoc0)
	patchesBefore := snapshotAny(libPatches)
	got, aerr := w.Composer.ApplyPatches(libDoc0, libPatches)
	w.T.Count("compose_calls", 1)
	w.T.Event("compose setup=%d patches=%d err=%v", len(setup), len(patches), aerr != nil)

	switch prop {
	case "C12":
		w.T.Count("input_snapshots_compared", 1)
		w.T.Mark("c12:" + actionsOf(patches) + fmt.Sprint(aerr == nil))
		if after := snapshotAny(libDoc0); after != docBefore {
			w.violate("C12/compose-mutated-document", firstAction(patches), "ApplyPatches changed its input document: %s", diffHint(docBefore, after))
		}
		if after := snapshotAny(libPatches); after != patchesBefore {
			w.violate("C12/compose-mutated-patches", firstAction(patches), "ApplyPatches changed its patch values: %s", diffHint(patchesBefore, after))
		}
		if aerr != nil {
			w.T.Probe("compose_failed_list")
			if got != nil {
				w.violate("C12/compose-partial-document", firstAction(patches), "a failing patch list returned a document")
			}
		}
	case "C11":
		w.T.Count("validated_lists_applied", 1)
		if aerr == nil {
			w.T.Mark("c11:" + ietfShape(patches) + "|" + opKinds(patches))
			for _, member := range []string{ref.MPublicKey, ref.MService} {
				before := ref.View(refDoc0, member)
				after := ref.View(normDoc(got), member)
				if !ref.Equal(before, after) {
					w.violate("C11/protected-member-changed", member+"/"+ietfShape(patches),
						"a validated ietf-json-patch changed %s: before %s after %s (patch %s)", member, clip(ref.JCS(before)), clip(ref.JCS(after)), clip(ref.JCS(patches)))
				}
			}
		} else {
			w.T.Probe("validated_list_not_applicable")
		}
	case "C10":
		w.T.Count("patch_lists_checked", 1)
		want, werr := ref.Compose(refDoc0, patches)
		w.T.Mark("c10:" + actionsOf(patches) + fmt.Sprint(werr == nil))
		switch {
		case werr == nil && aerr != nil:
			w.violate("C10/refused-applicable-list", w.rfcWitness(refDoc0, patches, nil), "composer refused a list the per-action semantics apply: %v (patches %s on %s)", aerr, clip(ref.JCS(patches)), clip(ref.JCS(refDoc0)))
		case werr != nil && aerr == nil:
			w.violate("C10/applied-inapplicable-list", w.rfcWitness(refDoc0, patches, werr), "composer applied a list RFC 6902 makes inapplicable (%v): result %s (patches %s on %s)", werr, clip(ref.JCS(normDoc(got))), clip(ref.JCS(patches)), clip(ref.JCS(refDoc0)))
		case werr == nil:
			if !ref.DocEqual(normDoc(got), want) {
				w.violate("C10/result-differs", w.rfcWitness(refDoc0, patches, nil), "composer %s, per-action semantics %s (patches %s on %s)", clip(ref.JCS(normDoc(got))), clip(ref.JCS(want)), clip(ref.JCS(patches)), clip(ref.JCS(refDoc0)))
			} else {
				w.checkUniqueIDs(refDoc0, normDoc(got))
				// applying the list at once equals applying it one patch at a time
				cur := libDoc0
				ok := true
				for _, lp := range libPatches {
					next, serr := w.Composer.ApplyPatches(cur, []patch.Patch{lp})
					if serr != nil {
						ok = false
						break
					}
					cur = next
				}
				if !ok || !ref.DocEqual(normDoc(cur), want) {
					w.violate("C10/stepwise-differs", actionsOf(patches), "one patch at a time gives %s, at once %s", clip(ref.JCS(normDoc(cur))), clip(ref.JCS(want)))
				}
			}
		}
	}
}

func normDoc(d document.Document) map[string]any {
	if d == nil {
		return nil
	}
	return ref.Norm(map[string]any(d)).(map[string]any)
}

func snapshotAny(v any) string {
	b, err := json.Marshal(v)
	if err != nil {
		return "marshal-error:" + err.Error()
	}
	return string(b)
}

func firstAction(patches []any) string {
	if len(patches) == 0 {
		return "none"
	}
	m, _ := patches[0].(map[string]any)
	a, _ := m["action"].(string)
	return a
}

func actionsOf(patches []any) string {
	s := ""
	for _, p := range patches {
		m, _ := p.(map[string]any)
		a, _ := m["action"].(string)
		s += a + ","
	}
	return s
}

// ietfShape summarises how the RFC 6902 operations of a list touch protected members: only operations whose
// path / from names a protected member or the root are listed.
func ietfShape(patches []any) string {
	s := ""
	seen := map[string]bool{}
	for _, p := range patches {
		m, _ := p.(map[string]any)
		for _, o := range listOf(m["patches"]) {
			om, _ := o.(map[string]any)
			kind, _ := om["op"].(string)
			mark := ""
			if from, ok := om["from"].(string); ok && protectedPointer(from) {
				mark += "(from-protected)"
			}
			if path, ok := om["path"].(string); ok && protectedPointer(path) {
				mark += "(path-protected)"
			}
			if path, ok := om["path"].(string); ok && (path == "" || path == "/") {
				mark += "(root)"
			}
			if mark != "" && !seen[kind+mark] {
				seen[kind+mark] = true
				s += kind + mark + ";"
			}
		}
	}
	if s == "" {
		return "no-protected-pointer"
	}
	return s
}

func protectedPointer(p string) bool {
	// a lenient RFC 6901 evaluation ignores whatever precedes the first slash
	if i := strings.Index(p, "/"); i > 0 {
		p = p[i:]
	}
	for _, m := range []string{"/publicKey", "/service"} {
		if p == m || (len(p) > len(m) && p[:len(m)+1] == m+"/") {
			return true
		}
	}
	return false
}

func listOf(v any) []any {
	l, _ := v.([]any)
	return l
}

// rfcWitness names the RFC 6902 condition a divergence is about: the reference error class, else the first
// known-deviation condition met by an ietf-json-patch of the list, else the action list.
func (w *World) rfcWitness(doc0 map[string]any, patches []any, werr error) string {
	if ce, ok := werr.(*ref.ComposeError); ok {
		return "rfc6902:" + ce.Class
	}
	cur := doc0
	for _, p := range patches {
		m, _ := p.(map[string]any)
		if a, _ := m["action"].(string); a == "ietf-json-patch" {
			if q := ref.Quirks(cur, listOf(m["patches"])); len(q) > 0 {
				return "rfc6902:" + q[0]
			}
		}
		next, err := ref.Compose(cur, []any{p})
		if err != nil {
			break
		}
		cur = next
	}
	return actionsOf(patches)
}

func (w *World) checkUniqueIDs(before, after map[string]any) {
	for _, member := range []string{ref.MPublicKey, ref.MService} {
		if !uniqueIDs(ref.View(before, member)) {
			continue
		}
		if !uniqueIDs(ref.View(after, member)) {
			w.violate("C10/duplicate-ids", member, "unique ids in, duplicate ids out: %s", clip(ref.JCS(ref.View(after, member))))
		}
	}
}

func uniqueIDs(l []any) bool {
	seen := map[string]bool{}
	for _, e := range l {
		m, _ := e.(map[string]any)
		id, _ := m["id"].(string)
		if seen[id] {
			return false
		}
		seen[id] = true
	}
	return true
}

// toPatchesViaConstructors builds library patches with patch.New*Patch (their action member is a typed
// patch.Action, not a string as after parsing).
func toPatchesViaConstructors(ps []any) ([]patch.Patch, error) {
	var out []patch.Patch
	for _, p := range ps {
		m, _ := p.(map[string]any)
		a, _ := m["action"].(string)
		var lp patch.Patch
		var err error
		switch a {
		case "ietf-json-patch":
			lp, err = patch.NewJSONPatch(string(ref.JCS(anyList(listOf(m["patches"])))))
		case "add-public-keys":
			lp, err = patch.NewAddPublicKeysPatch(string(ref.JCS(m["publicKeys"])))
		case "remove-public-keys":
			lp, err = patch.NewRemovePublicKeysPatch(string(ref.JCS(m["ids"])))
		case "add-services":
			lp, err = patch.NewAddServiceEndpointsPatch(string(ref.JCS(m["services"])))
		case "remove-services":
			lp, err = patch.NewRemoveServiceEndpointsPatch(string(ref.JCS(m["ids"])))
		case "add-also-known-as":
			lp, err = patch.NewAddAlsoKnownAs(string(ref.JCS(m["uris"])))
		case "remove-also-known-as":
			lp, err = patch.NewRemoveAlsoKnownAs(string(ref.JCS(m["uris"])))
		case "replace":
			lp, err = patch.NewReplacePatch(string(ref.JCS(m["document"])))
		default:
			lp, err = patch.FromBytes(ref.JCS(p))
		}
		if err != nil {
			return nil, err
		}
		out = append(out, lp)
	}
	return out, nil
}

// opKinds lists the RFC 6902 operation kinds of a list in order.
func opKinds(patches []any) string {
	s := ""
	for _, p := range patches {
		m, _ := p.(map[string]any)
		for _, o := range listOf(m["patches"]) {
			om, _ := o.(map[string]any)
			k, _ := om["op"].(string)
			s += k + ","
		}
	}
	return s
}
