package sim

import (
	"bytes"
	"crypto/sha256"
	"encoding/binary"
	"encoding/json"
	"fmt"

	"github.com/trustbloc/sidetree-go/pkg/api/operation"
	"github.com/trustbloc/sidetree-go/pkg/versions/1_0/model"
	"github.com/trustbloc/sidetree-go/pkg/versions/1_0/operationparser"

	"verif/sim/core"
	"verif/sim/ref"
)

// ---------------------------------------------------------------- intake (stub REST endpoint, real parser)

type recordingValidator struct {
	in     *Intake
	called int
	from   int64
	until  int64
}

func (v *recordingValidator) Validate(from, until int64) error {
	v.called++
	v.from, v.until = from, until
	now := v.in.w.Now("intake")
	if from != 0 && from > now {
		return operationparser.ErrOperationEarly
	}
	if until != 0 && until < now {
		return operationparser.ErrOperationExpired
	}
	return nil
}

// Intake is the REST endpoint of a node: Parse with a server-clock time validator, then the real path to
// the anchored form.
type Intake struct {
	dry    bool // parse and validate only, do not forward to the ledger
	w      *World
	parser *operationparser.Parser
	rec    *recordingValidator
}

func newIntake(w *World) *Intake {
	in := &Intake{w: w}
	in.rec = &recordingValidator{in: in}
	in.parser = operationparser.New(w.Proto, operationparser.WithAnchorTimeValidator(in.rec))
	return in
}

// expectedValidatorArgs is the (from, until) pair the parser must hand to the time validator (C09); ok is false when the
// default expiry from + delta is not an int64 (nothing is demanded of the second argument then).
func (w *World) expectedValidatorArgs(tr *ref.Truth) (from, until int64, ok bool) {
	until, ok = ref.DefaultUntil(tr.From, tr.Until, uint64(w.Plan.Swarm.TimeDelta))
	return tr.From, until, ok
}

func (in *Intake) Receive(op *BuiltOp) {
	w := in.w
	in.rec.called = 0
	ns := w.Plan.Swarm.Namespace
	w.T.Count("intake_requests", 1)
	res, err := in.parser.Parse(ns, op.Bytes)
	w.T.Event("intake op%d accepted=%v", op.ID, err == nil)

	argsOK := true
	if op.Honest && op.Truth.Kind != ref.Create && in.rec.called > 0 {
		ef, eu, representable := w.expectedValidatorArgs(&op.Truth)
		if !representable {
			w.T.Probe("window_default_expiry_not_int64")
			eu = in.rec.until
		}
		if w.CheckWindowArgs {
			w.T.Count("validator_calls_checked", 1)
			if in.rec.from != ef || in.rec.until != eu {
				w.violate("C09/validator-args", string(op.Truth.Kind),
					"%s request with from=%d until=%d (delta=%d): time validator received (%d,%d), expected (%d,%d)",
					op.Truth.Kind, op.Truth.From, op.Truth.Until, w.Plan.Swarm.TimeDelta, in.rec.from, in.rec.until, ef, eu)
			}
		}
		argsOK = in.rec.from == ef && in.rec.until == eu
	}
	if w.CheckWindowArgs && op.Honest && op.Truth.Kind != ref.Create && err == nil && in.rec.called != 1 {
		w.violate("C09/validator-not-consulted", string(op.Truth.Kind), "%s request admitted with %d time validator calls", op.Truth.Kind, in.rec.called)
	}

	if err != nil {
		if w.CheckIntake && op.Honest && argsOK && w.serverWindowOK(&op.Truth) {
			w.violate("C08/intake-refused", string(op.Truth.Kind), "honest %s request (builder %s, key %s) refused: %v", op.Truth.Kind, op.Builder,
				w.Pool.Get(op.SignKey.Idx).Type, err)
		}
		w.T.Probe("intake_rejected")
		return
	}
	w.T.Probe("intake_accepted")
	if op.Honest && w.CheckIntake {
		w.checkCreateReply(op)
	}
	if op.Honest {
		if string(res.Type) != string(op.Truth.Kind) || res.UniqueSuffix != op.Truth.Suffix || res.ID != ns+":"+op.Truth.Suffix ||
			!bytes.Equal(res.OperationRequest, op.Bytes) {
			w.violate("C08/parse-result", string(op.Truth.Kind), "Parse returned type=%s suffix=%s id=%s for %s of %s", res.Type, res.UniqueSuffix, res.ID,
				op.Truth.Kind, op.Truth.Suffix)
		}
	}
	mop, err := in.parser.ParseOperation(ns, op.Bytes, false)
	if err != nil {
		w.violate("C08/parse-twice", string(op.Truth.Kind), "Parse accepted but ParseOperation refused: %v", err)
		return
	}
	anch, err := model.GetAnchoredOperation(mop)
	if err != nil {
		w.violate("C08/anchored-form", string(op.Truth.Kind), "GetAnchoredOperation failed: %v", err)
		return
	}
	if op.Honest && w.CheckIntake {
		w.T.Count("anchored_forms_checked", 1)
		orig, perr := ref.Parse(op.Bytes)
		if perr == nil && !bytes.Equal(anch.OperationRequest, ref.JCS(orig)) {
			w.violate("C08/anchored-bytes", string(op.Truth.Kind), "anchored bytes are not the canonical encoding of the request: %s vs %s",
				clip(anch.OperationRequest), clip(ref.JCS(orig)))
		}
		if string(anch.Type) != string(op.Truth.Kind) || anch.UniqueSuffix != op.Truth.Suffix {
			w.violate("C08/anchored-identity", string(op.Truth.Kind), "anchored type/suffix %s/%s, want %s/%s", anch.Type, anch.UniqueSuffix, op.Truth.Kind, op.Truth.Suffix)
		}
		if op.Truth.Kind == ref.Create || op.Truth.Kind == ref.Recover {
			if !ref.Equal(normAny(anch.AnchorOrigin), op.Truth.AnchorOrigin) {
				w.violate("C08/anchored-origin", string(op.Truth.Kind), "anchored anchor origin %v, want %v", anch.AnchorOrigin, op.Truth.AnchorOrigin)
			}
		}
	}
	if in.dry {
		return
	}
	w.Ledger.Submit(op, anch, "intake")
}

func normAny(v any) any {
	if v == nil {
		return nil
	}
	return ref.Norm(v)
}

func clip(b []byte) string {
	if len(b) > 160 {
		return string(b[:160]) + "..."
	}
	return string(b)
}

// serverWindowOK: would a correct server admit this window now?
func (w *World) serverWindowOK(tr *ref.Truth) bool {
	if tr.Kind == ref.Create {
		return true
	}
	f, u, ok := w.expectedValidatorArgs(tr)
	now := w.Now("intake")
	return !(f != 0 && f > now) && !(ok && u != 0 && u < now)
}

// ---------------------------------------------------------------- ledger (stub)

// AnchoredRec is one anchored operation with its ground truth.
type AnchoredRec struct {
	Op     *operation.AnchoredOperation
	Built  *BuiltOp
	Height int
	Index  int
	Meta   ref.AnchorMeta
	Via    string
}

type pendingOp struct {
	built *BuiltOp
	anch  *operation.AnchoredOperation
	via   string
}

// Ledger cuts a block every block interval and broadcasts it.
type Ledger struct {
	w       *World
	pending []pendingOp
	Blocks  [][]*AnchoredRec
	globalN uint64
	armed   bool
}

func newLedger(w *World) *Ledger { return &Ledger{w: w} }

func (l *Ledger) arm() {
	if l.armed {
		return
	}
	l.armed = true
	iv := l.w.Plan.Swarm.BlockInterval
	next := iv - (l.w.now % iv)
	l.w.After(next, func() {
		l.armed = false
		l.Cut()
	})
}

func (l *Ledger) Submit(op *BuiltOp, anch *operation.AnchoredOperation, via string) {
	l.pending = append(l.pending, pendingOp{op, anch, via})
	l.arm()
}

// SubmitDirect anchors bytes that never went through an intake (another node's batch writer).
func (l *Ledger) SubmitDirect(op *BuiltOp) {
	anch := &operation.AnchoredOperation{Type: operation.Type(op.Truth.AnchoredKind), UniqueSuffix: op.Truth.Suffix,
		OperationRequest: op.Bytes}
	if op.Truth.Kind == ref.Create || op.Truth.Kind == ref.Recover {
		anch.AnchorOrigin = op.Truth.AnchorOrigin
	}
	l.Submit(op, anch, "direct")
}

// Flush cuts whatever is pending at the next block boundary (used when the run settles).
func (l *Ledger) Flush() {
	if len(l.pending) > 0 {
		l.arm()
	}
}

func (l *Ledger) Cut() {
	w := l.w
	if len(l.pending) == 0 {
		return
	}
	height := len(l.Blocks)
	var block []*AnchoredRec
	blockTime := uint64(w.Now("ledger"))
	for i, p := range l.pending {
		r := core.NewRNG(w.Plan.Seed).Stream(fmt.Sprintf("anchor/%d/%d", height, i))
		meta := ref.AnchorMeta{Time: blockTime, Version: w.Plan.Swarm.GenesisTime}
		if r.Chance(1, 2) {
			meta.Number = uint64(i) // resets per block: time and number can disagree across blocks
		} else {
			meta.Number = l.globalN
		}
		l.globalN++
		switch r.Intn(6) {
		case 0:
			meta.Canonical = ""
		case 1:
			meta.Canonical = fmt.Sprintf("uEiOp%d-%d", height, i)
		default:
			meta.Canonical = fmt.Sprintf("uEiBlock%d", height)
		}
		for e := r.Intn(4); e > 0; e-- {
			meta.Equivalent = append(meta.Equivalent, fmt.Sprintf("hl:uEiBlock%d:alt%d", height, e))
		}
		if rs := r.Stream("shared-refs"); meta.Canonical != "" && rs.Chance(1, 3) {
			// the references come from one name space: the canonical reference may be listed among the equivalent ones (any
			// position), and an equivalent reference may be listed twice
			at := rs.Intn(len(meta.Equivalent) + 1)
			eq := append([]string{}, meta.Equivalent[:at]...)
			eq = append(eq, meta.Canonical)
			meta.Equivalent = append(eq, meta.Equivalent[at:]...)
			if rs.Chance(1, 3) {
				meta.Equivalent = append(meta.Equivalent, meta.Equivalent[rs.Intn(len(meta.Equivalent))])
			}
			w.T.Probe("canonical_reference_among_equivalent")
		}
		a := *p.anch
		a.TransactionTime, a.TransactionNumber, a.ProtocolVersion = meta.Time, meta.Number, meta.Version
		// the library gets its own slice (full to capacity, as decoded data is): the oracle's copy must not follow in-place edits
		a.CanonicalReference, a.EquivalentReferences = meta.Canonical, nil
		if len(meta.Equivalent) > 0 {
			a.EquivalentReferences = append(make([]string, 0, len(meta.Equivalent)), meta.Equivalent...)
		}
		rec := &AnchoredRec{Op: &a, Built: p.built, Height: height, Index: i, Meta: meta, Via: p.via}
		block = append(block, rec)
		w.Model.Anchored(rec)
	}
	l.pending = nil
	l.Blocks = append(l.Blocks, block)
	w.T.Event("ledger cut block %d ops=%d t=%d", height, len(block), blockTime)
	w.T.Count("blocks", 1)
	for _, o := range w.Observers {
		l.broadcast(o, height, 0)
	}
}

// broadcast delivers block height to an observer subject to the network faults of the swarm.
func (l *Ledger) broadcast(o *Observer, height, attempt int) {
	w := l.w
	r := core.NewRNG(w.Plan.Seed).Stream(fmt.Sprintf("net/%d/%d/%d", o.id, height, attempt))
	nf := w.Plan.NetFaults()
	if attempt == 0 && r.Intn(100) < nf.DropPct {
		w.T.Fault("block_drop")
		return
	}
	delay := int64(0)
	if nf.MaxDelay > 0 {
		delay = int64(r.Intn(nf.MaxDelay + 1))
		if delay > 0 {
			w.T.Fault("block_delay")
		}
	}
	w.After(delay, func() { o.Deliver(height) })
	if attempt == 0 && r.Intn(100) < nf.DupPct {
		w.T.Fault("block_dup")
		w.After(delay+int64(r.Intn(5)), func() { o.Deliver(height) })
	}
}

// ---------------------------------------------------------------- simulated disk

// SimDisk is an append-only record log with a durable / volatile split.
type SimDisk struct {
	t        *core.Trace
	durable  [][]byte
	volatile [][]byte
	armed    string
	offset   int
	checksum bool
}

func (d *SimDisk) ArmFault(kind string, offset int) { d.armed, d.offset = kind, offset }
func (d *SimDisk) Disarm()                          { d.armed = "" }

func (d *SimDisk) frame(payload []byte) []byte {
	out := make([]byte, 12, 12+len(payload))
	binary.BigEndian.PutUint32(out, uint32(len(payload)))
	if d.checksum {
		s := sha256.Sum256(payload)
		copy(out[4:12], s[:8])
	}
	return append(out, payload...)
}

func (d *SimDisk) Append(payload []byte) { d.volatile = append(d.volatile, d.frame(payload)) }

// Sync makes volatile records durable, unless a lost-write fault is armed (then they vanish but the caller
// is told all is well).
func (d *SimDisk) Sync() {
	if d.armed == "lost" {
		d.t.Fault("disk_lost_write")
		d.armed = ""
		d.volatile = nil
		return
	}
	d.durable = append(d.durable, d.volatile...)
	d.volatile = nil
}

// Crash drops volatile records; an armed torn / short fault leaves a prefix of the first one behind.
func (d *SimDisk) Crash() {
	if (d.armed == "torn" || d.armed == "short") && len(d.volatile) > 0 {
		rec := d.volatile[0]
		n := d.offset
		if n < 0 {
			n = -n
		}
		n = 1 + n%len(rec)
		if n >= len(rec) {
			n = len(rec) - 1
		}
		d.durable = append(d.durable, append([]byte{}, rec[:n]...))
		d.t.Fault("disk_" + d.armed + "_write")
		d.armed = ""
	}
	d.volatile = nil
}

// Rot flips one bit of a durable record.
func (d *SimDisk) Rot(offset int) bool {
	if len(d.durable) == 0 {
		return false
	}
	if offset < 0 {
		offset = -offset
	}
	rec := d.durable[offset%len(d.durable)]
	bit := (offset / 7) % (len(rec) * 8)
	rec[bit/8] ^= 1 << uint(bit%8)
	d.t.Fault("disk_bit_rot")
	return true
}

// ReadAll returns the payloads of the longest valid prefix; bad is true when a damaged record ended it.
func (d *SimDisk) ReadAll() (payloads [][]byte, bad bool) {
	for _, rec := range d.durable {
		if len(rec) < 12 {
			return payloads, true
		}
		n := int(binary.BigEndian.Uint32(rec))
		if n != len(rec)-12 {
			return payloads, true
		}
		p := rec[12:]
		if d.checksum {
			s := sha256.Sum256(p)
			if !bytes.Equal(s[:8], rec[4:12]) {
				return payloads, true
			}
		}
		payloads = append(payloads, p)
	}
	return payloads, false
}

// Truncate keeps the first n durable records (recovery drops a damaged tail).
func (d *SimDisk) Truncate(n int) {
	if n < len(d.durable) {
		d.durable = d.durable[:n]
	}
}

// ---------------------------------------------------------------- wire format of a stored block

type storedOp struct {
	Op    *operation.AnchoredOperation `json:"op"`
	OpID  int                          `json:"id"`
	Index int                          `json:"i"`
}

type storedBlock struct {
	Height int        `json:"h"`
	Ops    []storedOp `json:"ops"`
}

func encodeBlock(height int, block []*AnchoredRec) []byte {
	sb := storedBlock{Height: height}
	for _, r := range block {
		sb.Ops = append(sb.Ops, storedOp{Op: r.Op, OpID: r.Built.ID, Index: r.Index})
	}
	b, err := json.Marshal(sb)
	if err != nil {
		panic(err)
	}
	return b
}

func decodeBlock(b []byte) (*storedBlock, error) {
	var sb storedBlock
	if err := json.Unmarshal(b, &sb); err != nil {
		return nil, err
	}
	return &sb, nil
}
