package sim

import (
	"encoding/json"
	"fmt"

	"github.com/trustbloc/sidetree-go/pkg/api/operation"
	"github.com/trustbloc/sidetree-go/pkg/api/protocol"
	"github.com/trustbloc/sidetree-go/pkg/document"
	"github.com/trustbloc/sidetree-go/pkg/docutil"
	"github.com/trustbloc/sidetree-go/pkg/versions/1_0/doctransformer/didtransformer"

	"verif/sim/core"
	"verif/sim/ref"
)

// resolve answers a resolution request for a DID the observer has a state for and compares the result with the
// reference resolution (C18). Operation lists are handed over in arrival order: shuffled, with duplicates sharing a
// canonical reference, with transaction numbers that reset per block.
func (o *Observer) resolve(st *Step) {
	w := o.w
	if len(o.order) == 0 {
		return
	}
	suffix := o.order[((st.DID%len(o.order))+len(o.order))%len(o.order)]
	f := o.folds[suffix]
	if f == nil || f.rm == nil || f.rm.Doc == nil {
		return
	}
	model := w.Model.StateAt(suffix, f.fed)
	if model == nil || !model.Exists {
		return
	}
	r := core.NewRNG(w.Plan.Seed).Stream(fmt.Sprintf("resolve/%d", w.step))
	base, incPub, incUnpub, withCtx, published := st.Opts&1 != 0, st.Opts&2 != 0, st.Opts&4 != 0, st.Opts&8 != 0, st.Opts&16 != 0
	var methodCtx []string
	if withCtx {
		// two method contexts unless bits 6-8 ask for another number (1..7)
		methodCtx = []string{"https://w3id.org/did-method/sim/v1", "https://example.com/ctx/2"}
		if n := (st.Opts >> 6) & 7; n > 0 {
			methodCtx = nil
			for i := 0; i < n; i++ {
				methodCtx = append(methodCtx, fmt.Sprintf("https://example.com/ctx/%d", i+1))
			}
		}
	}
	// one transformer per option set for the whole run, as a deployment holds one per protocol version: whatever a transformer
	// keeps between calls is shared by every document it transforms
	trKey := st.Opts & (1 | 2 | 4 | 8 | 7<<6)
	tr := w.transformers[trKey]
	if tr == nil {
		opts := []didtransformer.Option{didtransformer.WithBase(base), didtransformer.WithIncludePublishedOperations(incPub),
			didtransformer.WithIncludeUnpublishedOperations(incUnpub)}
		if withCtx {
			opts = append(opts, didtransformer.WithMethodContext(methodCtx))
		}
		tr = didtransformer.New(opts...)
		if w.transformers == nil {
			w.transformers = map[int]*didtransformer.Transformer{}
		}
		w.transformers[trKey] = tr
	} else {
		w.T.Probe("transformer_reused")
	}

	// operation lists: the real anchored operations of the DID plus synthetic ones with arbitrary (time, number) pairs
	used := map[[2]uint64]bool{}
	var pub, unpub []*operation.AnchoredOperation
	var pubD, unpubD []ref.OpDesc
	add := func(op *operation.AnchoredOperation, published bool) {
		key := [2]uint64{op.TransactionTime, op.TransactionNumber}
		if used[key] {
			return // ties have no defined order
		}
		used[key] = true
		d := ref.OpDesc{Type: string(op.Type), Request: op.OperationRequest, Time: op.TransactionTime, Number: op.TransactionNumber,
			Version: op.ProtocolVersion, Canonical: op.CanonicalReference, Equivalent: op.EquivalentReferences, Origin: normAny(op.AnchorOrigin)}
		if published {
			pub, pubD = append(pub, op), append(pubD, d)
		} else {
			unpub, unpubD = append(unpub, op), append(unpubD, d)
		}
	}
	for i, a := range f.arrival {
		cp := *a
		if cp.CanonicalReference == "" {
			cp.CanonicalReference = fmt.Sprintf("uEiArr%d", i)
		}
		add(&cp, true)
	}
	for n := r.Intn(6); n > 0; n-- {
		syn := &operation.AnchoredOperation{Type: operation.TypeUpdate, UniqueSuffix: suffix, OperationRequest: []byte(fmt.Sprintf("{\"syn\":%d}", n)),
			TransactionTime: uint64(Epoch + int64(r.Intn(400))), TransactionNumber: uint64(r.Intn(4)), ProtocolVersion: w.Plan.Swarm.GenesisTime,
			CanonicalReference: fmt.Sprintf("uEiSyn%d", r.Intn(4))}
		if r.Chance(1, 3) {
			syn.EquivalentReferences = []string{"hl:alt"}
			syn.AnchorOrigin = "https://origin.example"
		}
		add(syn, !r.Chance(1, 3))
	}
	core.Shuffle(r, pub)
	core.Shuffle(r, unpub)
	if st.Opts&32 != 0 {
		// the lists already in anchoring order must come out unchanged too
		pubD2 := ref.SortOps(pubD)
		pub = pub[:0]
		for _, d := range pubD2 {
			for _, a := range append(append([]*operation.AnchoredOperation{}, f.arrival...), unpub...) {
				_ = a
			}
			_ = d
		}
		pub = nil
		for _, d := range pubD2 {
			pub = append(pub, &operation.AnchoredOperation{Type: operation.Type(d.Type), UniqueSuffix: suffix, OperationRequest: d.Request, TransactionTime: d.Time,
				TransactionNumber: d.Number, ProtocolVersion: d.Version, CanonicalReference: d.Canonical, EquivalentReferences: d.Equivalent, AnchorOrigin: d.Origin})
		}
	}

	rm := *f.rm
	rm.PublishedOperations, rm.UnpublishedOperations = pub, unpub
	ns := w.Plan.Swarm.Namespace
	id := ns + ":" + suffix
	var info protocol.TransformationInfo
	var canonicalID string
	var equivalentIDs []string
	if published {
		info = docutil.GetTransformationInfoForPublished(ns, id, suffix, &rm)
		canonicalID = ns + ":" + suffix
		if rm.CanonicalReference != "" {
			canonicalID = ns + ":" + rm.CanonicalReference + ":" + suffix
		}
		equivalentIDs = []string{canonicalID}
		for _, e := range rm.EquivalentReferences {
			equivalentIDs = append(equivalentIDs, ns+":"+e+":"+suffix)
		}
	} else {
		info = docutil.GetTransformationInfoForUnpublished(ns, "", "", suffix, "")
	}

	res, err := tr.TransformDocument(&rm, info)
	w.T.Count("resolutions_checked", 1)
	w.T.Event("%s resolve %s opts=%d err=%v", o.name, suffix, st.Opts, err != nil)
	wantDoc, werr := ref.ExternalDocument(model.Doc, id, base, methodCtx)
	if werr != nil {
		return
	}
	if err != nil {
		w.violate("C18/transform-failed", "", "TransformDocument failed on a document built from validated patches: %v", err)
		return
	}
	// the caller keeps the result: it must still say the same at the end of the run, after the transformer served other documents
	if snap, serr := json.Marshal(res); serr == nil {
		w.retainedRes = append(w.retainedRes, retainedResolution{label: fmt.Sprintf("%s opts=%d step=%d", id, st.Opts, w.step), res: res, snap: string(snap)})
	}
	gotDoc := ref.Norm(map[string]any(res.Document)).(map[string]any)
	w.T.Mark(fmt.Sprintf("res:%d:%d:%d:%d", st.Opts, len(ref.View(model.Doc, ref.MPublicKey)), len(ref.View(model.Doc, ref.MService)), len(pub)))
	if !ref.Equal(gotDoc, wantDoc) {
		w.violate("C18/document", firstDiffMember(gotDoc, wantDoc), "resolved document %s, want %s", clip(ref.JCS(gotDoc)), clip(ref.JCS(wantDoc)))
	}
	if res.Context != ref.CtxDIDResolution {
		w.violate("C18/resolution-context", "", "resolution context %v", res.Context)
	}
	rs := &ref.ResState{UpdCommit: model.UpdCommit, RecCommit: model.RecCommit, AnchorOrigin: model.AnchorOrigin, Deactivated: model.Deactivated,
		Created: model.Created, Updated: model.Updated, VersionID: model.VersionID, Published: pubD, Unpublished: unpubD}
	wantMD := ref.Metadata(rs, published, canonicalID, equivalentIDs, incPub, incUnpub)
	mdBytes, merr := json.Marshal(res.DocumentMetadata)
	if merr != nil {
		w.violate("C18/metadata-marshal", "", "%v", merr)
		return
	}
	gotMD, _ := ref.Parse(mdBytes)
	if !ref.Equal(gotMD, wantMD) {
		gm, _ := gotMD.(map[string]any)
		wit := firstDiffMember(gm, wantMD)
		if wit == "method" {
			wit = "method." + firstDiffMember(asMap(gm["method"]), asMap(wantMD["method"]))
		}
		w.violate("C18/metadata", wit, "metadata %s, want %s", clipN(ref.JCS(gotMD), 700), clipN(ref.JCS(wantMD), 700))
	}
}

func asMap(v any) map[string]any {
	m, _ := v.(map[string]any)
	return m
}

func clipN(b []byte, n int) string {
	if len(b) > n {
		return string(b[:n]) + "..."
	}
	return string(b)
}

// firstDiffMember names the first (sorted) top-level member on which two objects differ.
func firstDiffMember(a, b map[string]any) string {
	keys := map[string]bool{}
	for k := range a {
		keys[k] = true
	}
	for k := range b {
		keys[k] = true
	}
	for _, k := range core.SortedKeys(keys) {
		av, aok := a[k]
		bv, bok := b[k]
		if aok != bok || !ref.Equal(av, bv) {
			return k
		}
	}
	return "?"
}

// retainedResolution is a resolution result a caller still holds, with what it said when it was returned.
type retainedResolution struct {
	label string
	res   *document.ResolutionResult
	snap  string
}

// checkRetainedResolutions: results returned earlier are values, not views of the transformer's state (C18).
func (w *World) checkRetainedResolutions() {
	for _, rr := range w.retainedRes {
		now, err := json.Marshal(rr.res)
		w.T.Count("retained_results_rechecked", 1)
		if err != nil || string(now) != rr.snap {
			w.violate("C18/result-changed-later", "", "%s: the result returned earlier reads differently after later transformations: %s", rr.label, diffHint(rr.snap, string(now)))
		}
	}
}
