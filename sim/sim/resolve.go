package sim

func (o *Observer) resolve(st *Step) {}
