package sim

// execCall dispatches direct library calls that are not world events.
func (w *World) execCall(st *Step) {
	switch st.Name {
	case "keyalgebra":
		w.execKeyAlgebra(st)
	case "hostile":
		w.execHostile(w.step, st)
	default:
		w.T.Event("unknown call %q ignored", st.Name)
	}
}

// execEnum dispatches the other enumeration steps.
func (w *World) execEnum(stepIdx int, st *Step) {
	switch st.Name {
	case "create-binding":
		w.execCreateBinding(stepIdx, st)
	case "cas":
		w.execCAS(stepIdx, st)
	case "jws":
		w.execJWS(stepIdx, st)
	case "jwk":
		w.execJWK(stepIdx, st)
	default:
		w.T.Event("unknown enumeration %q ignored", st.Name)
	}
}
