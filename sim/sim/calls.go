package sim

// execCall dispatches direct library calls that are not world events.
func (w *World) execCall(st *Step) {
	switch st.Name {
	case "keyalgebra":
		w.execKeyAlgebra(st)
	default:
		w.T.Event("unknown call %q ignored", st.Name)
	}
}
