package sim

import (
	"strings"

	"fmt"

	"verif/sim/core"
	"verif/sim/ref"
)

// classesFor lists the failure classes applicable to an operation kind (DESIGN A.1).
func classesFor(kind ref.OpKind, s *Swarm, chain bool) []string {
	var cs []string
	switch kind {
	case ref.Create:
		cs = []string{ref.FUnparsable, ref.FMissingMember, ref.FBadSuffixData, ref.FDeltaMissing, ref.FDeltaHash, ref.FDeltaInvalid}
	case ref.Update:
		cs = []string{ref.FUnparsable, ref.FMissingMember, ref.FBadSignedData, ref.FRevealMismatch, ref.FBadSignature,
			ref.FDeltaMissing, ref.FDeltaHash, ref.FDeltaInvalid, ref.FWindowEarly, ref.FWindowLate}
	case ref.Recover:
		cs = []string{ref.FUnparsable, ref.FMissingMember, ref.FBadSignedData, ref.FRevealMismatch, ref.FBadSignature,
			ref.FDeltaMissing, ref.FDeltaHash, ref.FDeltaInvalid, ref.FWindowEarly, ref.FWindowLate, ref.FBadNextRecovery}
	case ref.Deactivate:
		cs = []string{ref.FUnparsable, ref.FMissingMember, ref.FBadSignedData, ref.FRevealMismatch, ref.FBadSignature,
			ref.FSuffixMismatch, ref.FWindowEarly, ref.FWindowLate}
	}
	if !chain {
		cs = append(cs, ref.FTypeConfusion, ref.FOwnTypeWrong)
	}
	if kind != ref.Deactivate && s.enabled("ietf-json-patch") {
		cs = append(cs, ref.FNotApplicable)
	}
	return cs
}

type genDID struct {
	wallet, did int
	created     bool
	dead        bool
	other       []string // non-protected members believed present (steers RFC 6902 generation)
	ops         int
}

// opStep draws one submit step for a DID.
func opStep(r *core.RNG, pool *Pool, s *Swarm, d *genDID, kind ref.OpKind, fault string, chain bool) Step {
	st := Step{Op: SSubmit, Wallet: d.wallet, DID: d.did, Kind: string(kind), Fault: fault, FaultArg: r.Intn(1000)}
	st.NextUpd = pickSigningKey(r, pool, s)
	st.NextRec = pickSigningKey(r, pool, s)
	st.NonceUpd, st.NonceRec = r.Chance(1, 3), r.Chance(1, 3)
	if r.Chance(1, 4) {
		st.Kid = core.Pick(r, []string{"key-1", "did:example:123#k", "<kid>&"})
	}
	if len(s.HashAlgs) > 1 && r.Chance(1, 3) {
		st.HashAlg = s.HashAlgs[1]
	}
	if kind != ref.Deactivate {
		if kind == ref.Create || kind == ref.Recover {
			d.other = nil
		}
		st.Patches = genPatches(r, pool, s, 3, &d.other)
	}
	if kind == ref.Create || kind == ref.Recover {
		st.Origin, st.HasOrigin = genOrigin(r)
		if kind == ref.Create && r.Chance(1, 4) {
			st.EntityType = core.Pick(r, []string{"org", "person", "0001"})
			if rx := r.Stream("exotic-type"); rx.Chance(1, 3) {
				st.EntityType = core.Pick(rx, exoticStrings)
			}
		}
	}
	// anchoring window
	if kind != ref.Create {
		switch {
		case fault == ref.FWindowEarly:
			st.HasFrom, st.From = true, int64(r.Range(2000, 90000))
			if r.Chance(1, 2) {
				st.HasUntil, st.Until = true, st.From+int64(r.Range(1, 5000))
			}
		case fault == ref.FWindowLate:
			st.HasFrom, st.From = true, -int64(r.Range(3000, 90000))
			if r.Chance(1, 2) {
				st.HasUntil, st.Until = true, st.From+int64(r.Range(1, 1000))
			}
		case r.Chance(1, 3):
			st.HasFrom, st.From = true, -int64(r.Range(0, 100))
			if r.Chance(1, 2) {
				st.HasUntil, st.Until = true, int64(r.Range(1000, 100000))
			}
		case r.Chance(1, 6):
			st.HasUntil, st.Until = true, int64(r.Range(1000, 100000))
			st.HasFrom, st.From = true, -int64(r.Range(1, 50))
		}
	}
	if fault == ref.FNotApplicable {
		bad := []any{
			map[string]any{"op": "remove", "path": "/definitely-missing"},
			map[string]any{"op": "test", "path": "/definitely-missing", "value": jsonInt(1)},
			map[string]any{"op": "add", "path": "/no/such/parent", "value": jsonInt(1)},
		}
		st.Patches = append(st.Patches, map[string]any{"action": "ietf-json-patch", "patches": []any{bad[r.Intn(len(bad))]}})
	}
	if fault == ref.FTypeConfusion {
		others := []string{"create", "update", "recover", "deactivate"}
		st.AnchoredKind = others[r.Intn(4)]
		if st.AnchoredKind == st.Kind {
			st.AnchoredKind = others[(r.Intn(3)+1+indexOf(others, st.Kind))%4]
		}
	}
	if fault == ref.FNone && kind != ref.Deactivate && r.Chance(1, 12) {
		// at the limit or one byte below (valid); GenFold also asks for one byte above (invalid)
		st.PadDelta, st.PadKind = r.Range(1, 2), r.Intn(6)
	}
	// (not for requests anchored under another type: a member that means nothing to a recover is the signed DID suffix of a deactivate)
	if rx := r.Stream("signed-extra"); kind != ref.Create && fault != ref.FTypeConfusion && rx.Chance(1, 4) {
		st.SignedExtra = genSignedExtra(rx, kind)
	}
	st.Respace = r.Stream("respace").Chance(1, 5)
	st.KeyExtras = kind != ref.Create && r.Stream("key-extras").Chance(1, 6)
	st.NextUpdIsRevealed = kind == ref.Recover && r.Stream("cross-chain-key").Chance(1, 6)
	st.Builder = "raw"
	st.Via = "direct"
	if fault == ref.FNone {
		if r.Chance(1, 2) {
			st.Builder = "lib"
		}
		if r.Chance(1, 3) && kind != ref.Create && !st.HasFrom {
			st.Via = "intake"
		}
	}
	return st
}

func indexOf(l []string, s string) int {
	for i, e := range l {
		if e == s {
			return i
		}
	}
	return 0
}

func pickKind(r *core.RNG, d *genDID) ref.OpKind {
	if !d.created {
		if r.Chance(5, 6) {
			return ref.Create
		}
		return core.Pick(r, []ref.OpKind{ref.Update, ref.Recover, ref.Deactivate})
	}
	switch x := r.Intn(100); {
	case x < 55:
		return ref.Update
	case x < 78:
		return ref.Recover
	case x < 86:
		return ref.Deactivate
	default:
		return ref.Create
	}
}

// replayStep re-anchors an earlier operation of the DID (a byte-identical replay; for create this is the
// create-on-existing-state case).
func replayStep(r *core.RNG, d *genDID) Step {
	return Step{Op: SSubmit, Wallet: d.wallet, DID: d.did, Replay: r.Range(1, 4), Via: "direct", Kind: "replay"}
}

// addEnvFaults sprinkles environment steps (ticks, crashes, disk faults, partitions) between submits.
func addEnvFaults(r *core.RNG, s *Swarm, steps []Step, heavy bool) []Step {
	if r.Chance(2, 5) {
		steps = append(steps, Step{Op: STick, Secs: int64(r.Range(1, int(s.BlockInterval)*2))})
	}
	if !heavy {
		return steps
	}
	if r.Chance(1, 12) {
		n := r.Intn(3)
		if r.Chance(1, 2) {
			steps = append(steps, Step{Op: SDiskFault, Node: n, DiskKind: core.Pick(r, []string{"torn", "short", "lost"}), Offset: r.Intn(5000)})
		}
		steps = append(steps, Step{Op: SCrash, Node: n})
		if r.Chance(1, 2) {
			steps = append(steps, Step{Op: STick, Secs: int64(r.Range(1, 40))})
		}
		steps = append(steps, Step{Op: SRestart, Node: n})
	}
	if r.Chance(1, 25) {
		n := r.Intn(3)
		steps = append(steps, Step{Op: SPartition, Node: n}, Step{Op: STick, Secs: int64(r.Range(10, 200))}, Step{Op: SHeal, Node: n})
	}
	if r.Chance(1, 30) {
		steps = append(steps, Step{Op: SClockJump, Actor: core.Pick(r, []string{"ledger", "intake", "wallet0", "wallet1"}), Secs: int64(r.Range(-30, 300))})
	}
	return steps
}

// GenFold generates a C01 / C12 history plan. variant 0: random histories with environment faults; variant > 0:
// the class x position sub-sweep over a valid base lifecycle.
func GenFold(prop string, seed uint64, variant int, pool *Pool) *Plan {
	r := core.NewRNG(seed).Stream("gen/" + prop)
	p := &Plan{Property: prop, Profile: "fold", Seed: seed, CryptoSeed: core.NewRNG(seed).Stream("crypto").Uint64()}
	p.Swarm = GenSwarm(r.Stream("swarm"), pool)
	s := &p.Swarm
	s.ChainMode = variant == 0 && r.Chance(1, 4)
	if rs := r.Stream("soak"); variant == 0 && prop == "C01" && rs.Chance(1, 150) {
		s.Soak, s.Observers = 1050+rs.Intn(400), 1
	}
	heavy := variant == 0 && r.Chance(1, 2)
	if heavy {
		s.NetDropPct, s.NetDupPct, s.NetMaxDelay = r.Intn(15), r.Intn(20), r.Intn(int(s.BlockInterval)*3)
	}
	if variant > 0 {
		p.Profile = "fold-sweep"
		d := &genDID{}
		kinds := []ref.OpKind{ref.Create}
		for i := r.Range(1, 3); i > 0; i-- {
			kinds = append(kinds, ref.Update)
		}
		kinds = append(kinds, ref.Recover)
		for i := r.Range(0, 2); i > 0; i-- {
			kinds = append(kinds, ref.Update)
		}
		kinds = append(kinds, ref.Deactivate)
		v := variant - 1
		pos := v % len(kinds)
		cs := classesFor(kinds[pos], s, false)
		class := cs[(v/len(kinds))%len(cs)]
		for i, k := range kinds {
			f := ref.FNone
			if i == pos {
				f = class
			}
			st := opStep(r, pool, s, d, k, f, false)
			st.Via = "direct"
			p.Steps = append(p.Steps, st)
			if f != ref.FNone && (faultEffect(k, f) != "full") {
				// the base operation follows the faulted one so that the history goes on from the state the fault left
				st2 := opStep(r, pool, s, d, k, ref.FNone, false)
				st2.Via = "direct"
				p.Steps = append(p.Steps, st2)
			}
			if r.Chance(1, 2) {
				p.Steps = append(p.Steps, Step{Op: STick, Secs: s.BlockInterval})
			}
		}
		return p
	}
	nd := r.Range(1, 4)
	var dids []*genDID
	for i := 0; i < nd; i++ {
		dids = append(dids, &genDID{wallet: r.Intn(3), did: i})
	}
	total := r.Range(2, 12) * nd
	if total > 30 {
		total = 30
	}
	for i := 0; i < total; i++ {
		d := core.Pick(r, dids)
		if d.created && r.Chance(1, 8) {
			p.Steps = append(p.Steps, replayStep(r, d))
			continue
		}
		kind := pickKind(r, d)
		fault := ref.FNone
		if r.Chance(2, 5) {
			fault = core.Pick(r, classesFor(kind, s, s.ChainMode))
		}
		st := opStep(r, pool, s, d, kind, fault, s.ChainMode)
		if st.PadDelta > 0 && r.Chance(1, 3) {
			st.PadDelta = 3
		}
		if heavy && r.Chance(1, 5) {
			st.Delay = r.Intn(int(s.BlockInterval) * 2)
		}
		if heavy && r.Chance(1, 10) {
			st.Dup = 1
		}
		if heavy && st.Via == "intake" && r.Chance(1, 8) {
			st.RespLost = true
		}
		p.Steps = append(p.Steps, st)
		if kind == ref.Create && faultEffect(kind, fault) != "none" {
			d.created = true
		}
		p.Steps = addEnvFaults(r, s, p.Steps, heavy)
	}
	return p
}

// GenResolve generates C18 plans: histories of mostly valid operations with resolution requests at arbitrary points.
func GenResolve(seed uint64, pool *Pool) *Plan {
	p := GenFold("C18", seed, 0, pool)
	p.Profile = "resolve"
	r := core.NewRNG(seed).Stream("gen/C18/resolve")
	p.Swarm.ChainMode = false
	// a run resolves with a few option sets only (bit 0 @base, 1/2 operation lists, 3 method contexts, 4 published, 5 presorted,
	// 6-8 number of method contexts), so that the same transformer serves several documents
	palette := []int{r.Intn(512), r.Intn(512), r.Intn(64)}
	pickOpts := func() int {
		o := core.Pick(r, palette)
		// the bits that do not configure the transformer vary freely
		return o&^(16|32) | r.Intn(4)<<4
	}
	var steps []Step
	for _, st := range p.Steps {
		if st.Op == SSubmit && st.Fault != ref.FNone && r.Chance(2, 3) {
			st.Fault, st.AnchoredKind = ref.FNone, ""
		}
		steps = append(steps, st)
		if st.Op == SSubmit {
			if r.Chance(1, 2) {
				steps = append(steps, Step{Op: STick, Secs: p.Swarm.BlockInterval + 1})
			}
			for n := r.Intn(3); n > 0; n-- {
				steps = append(steps, Step{Op: SResolve, Node: r.Intn(3), DID: r.Intn(4), Opts: pickOpts()})
			}
		}
	}
	steps = append(steps, Step{Op: STick, Secs: p.Swarm.BlockInterval * 3})
	for n := 0; n < 4; n++ {
		steps = append(steps, Step{Op: SResolve, Node: r.Intn(3), DID: n, Opts: pickOpts()})
	}
	p.Steps = steps
	return p
}

// FoldSweepVariants is an upper bound on the number of (position, class) variants of a base lifecycle.
const FoldSweepVariants = 8 * 14

func describePlan(p *Plan) any {
	var ops []string
	for _, st := range p.Steps {
		switch st.Op {
		case SSubmit:
			f := st.Fault
			if f == "" {
				f = "valid"
			}
			ops = append(ops, fmt.Sprintf("w%d/did%d %s[%s] via %s", st.Wallet, st.DID, st.Kind, f, st.Via))
		case STick:
			ops = append(ops, fmt.Sprintf("tick %ds", st.Secs))
		default:
			ops = append(ops, fmt.Sprintf("%s node%d", st.Op, st.Node))
		}
	}
	return map[string]any{"seed": p.Seed, "profile": p.Profile, "chainMode": p.Swarm.ChainMode, "hashAlgs": p.Swarm.HashAlgs,
		"keyAlgs": p.Swarm.KeyAlgs, "timeDelta": p.Swarm.TimeDelta, "steps": ops}
}

// genSignedExtra draws members that the signed data of the operation type does not use under the v1 rules: names of
// the protocol vocabulary (what other operation types sign, what the request carries beside the signed data) and unknown
// names, with values that agree with, differ from, or are unrelated to the request's own. None of them has a meaning,
// so an operation carrying them is exactly as valid as without them.
func genSignedExtra(r *core.RNG, kind ref.OpKind) map[string]any {
	someHash := "EiD" + strings.Repeat("k", 43)
	str := func() any {
		return core.Pick(r, []any{"", "$reveal", "$suffix", someHash, "EgA", "x", "did:example:other"})
	}
	var names []string
	switch kind {
	case ref.Update:
		names = []string{"revealValue", "didSuffix", "recoveryKey", "recoveryCommitment", "updateCommitment", "anchorOrigin", "type", "x-ext"}
	case ref.Recover:
		names = []string{"revealValue", "didSuffix", "updateKey", "updateCommitment", "type", "x-ext"}
	default:
		names = []string{"revealValue", "deltaHash", "updateKey", "recoveryCommitment", "updateCommitment", "anchorOrigin", "type", "delta", "x-ext"}
	}
	out := map[string]any{}
	for n := r.Range(1, 2); n > 0; n-- {
		out[core.Pick(r, names)] = str()
	}
	return out
}
