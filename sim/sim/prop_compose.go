package sim

import (
	"fmt"
	"sort"
	"strconv"
	"strings"

	"verif/sim/core"
	"verif/sim/ref"
)

// pointersOf lists the JSON pointers of every value inside the given top-level members of doc.
func pointersOf(doc map[string]any, members []string) []string {
	var out []string
	var walk func(p string, v any)
	walk = func(p string, v any) {
		out = append(out, p)
		switch x := v.(type) {
		case map[string]any:
			keys := make([]string, 0, len(x))
			for k := range x {
				keys = append(keys, k)
			}
			sort.Strings(keys)
			for _, k := range keys {
				walk(p+"/"+ptrEscape(k), x[k])
			}
		case []any:
			for i, e := range x {
				walk(p+"/"+strconv.Itoa(i), e)
			}
		}
	}
	for _, m := range members {
		if v, ok := doc[m]; ok {
			walk("/"+ptrEscape(m), v)
		}
	}
	return out
}

func sortedMembers(doc map[string]any) (protected, other []string) {
	keys := make([]string, 0, len(doc))
	for k := range doc {
		keys = append(keys, k)
	}
	sort.Strings(keys)
	for _, k := range keys {
		if k == ref.MPublicKey || k == ref.MService {
			protected = append(protected, k)
		} else if k != ref.MAlsoKnownAs {
			other = append(other, k)
		}
	}
	return
}

// genRFC6902Full draws operations of all six kinds aimed at the actual non-protected content of doc: existing
// members, nested values, array elements, "-", escaped tokens; a minority is deliberately inapplicable.
func genRFC6902Full(r *core.RNG, doc map[string]any) []any {
	_, other := sortedMembers(doc)
	ptrs := pointersOf(doc, other)
	fresh := func() string {
		return "/" + ptrEscape(core.Pick(r, []string{"note", "n2", "a~b", "x/y", "meta", "zz"}))
	}
	existing := func() string {
		if len(ptrs) == 0 || r.Chance(1, 8) {
			return fresh()
		}
		return core.Pick(r, ptrs)
	}
	var ops []any
	for n := r.Range(1, 4); n > 0; n-- {
		switch r.Intn(9) {
		case 0, 1:
			if aka := ref.View(doc, ref.MAlsoKnownAs); len(aka) > 0 && r.Stream("aka-twice").Chance(1, 4) {
				// also-known-as is not a protected member: RFC 6902 operations can make the list hold one URI twice, which the typed
				// actions never do (their set semantics must still hold afterwards)
				ops = append(ops, map[string]any{"op": "add", "path": "/" + ref.MAlsoKnownAs + "/" + core.Pick(r, []string{"-", "0", "1"}), "value": core.Pick(r, aka)})
				continue
			}
			ops = append(ops, map[string]any{"op": "add", "path": fresh(), "value": genValue(r)})
		case 2:
			p := existing()
			if r.Chance(1, 2) {
				p += "/" + core.Pick(r, []string{"-", "0", "1", "k", "sub"})
			}
			ops = append(ops, map[string]any{"op": "add", "path": p, "value": genValue(r)})
		case 3:
			ops = append(ops, map[string]any{"op": "remove", "path": existing()})
		case 4:
			ops = append(ops, map[string]any{"op": "replace", "path": existing(), "value": genValue(r)})
		case 5:
			if r.Chance(1, 2) {
				// a test that holds: the value the reference finds at a pointer of the document as the operations so far leave it
				// (scalars preferred: strings with characters on which encoders disagree are compared as they were written)
				cur := any(doc)
				if next, err := ref.ApplyRFC6902(doc, ops); err == nil {
					cur = next
				}
				if cm, ok := cur.(map[string]any); ok {
					_, oth := sortedMembers(cm)
					cand := pointersOf(cm, append(oth, ref.MAlsoKnownAs))
					var scalars []string
					for _, c := range cand {
						if v, err := ref.Lookup(cm, c); err == nil && v != nil && !isContainerValue(v) {
							scalars = append(scalars, c)
						}
					}
					if len(scalars) > 0 && !r.Chance(1, 5) {
						cand = scalars
					}
					if len(cand) > 0 {
						p := core.Pick(r, cand)
						if v, err := ref.Lookup(cm, p); err == nil {
							ops = append(ops, map[string]any{"op": "test", "path": p, "value": ref.Clone(v)})
							continue
						}
					}
				}
			}
			ops = append(ops, map[string]any{"op": "test", "path": existing(), "value": genValue(r)})
		case 6:
			ops = append(ops, map[string]any{"op": "copy", "from": existing(), "path": fresh()})
		case 7:
			ops = append(ops, map[string]any{"op": "move", "from": existing(), "path": fresh()})
		default:
			to := existing()
			if r.Chance(1, 2) {
				to += "/" + core.Pick(r, []string{"0", "-", "1"})
			}
			ops = append(ops, map[string]any{"op": core.Pick(r, []string{"copy", "move"}), "from": existing(), "path": to})
		}
	}
	return ops
}

// genRFC6902Clean draws a full-RFC list that meets none of the conditions under which the RFC 6902 library is
// known to deviate (known_findings.json: their fixed witnesses are replayed on every run instead), so that random
// exploration looks for divergences that are not known yet.
func genRFC6902Clean(r *core.RNG, doc map[string]any) []any {
	for try := 0; try < 8; try++ {
		ops := genRFC6902Full(r, doc)
		if len(ref.Quirks(doc, ops)) == 0 {
			return ops
		}
	}
	return []any{map[string]any{"op": "add", "path": "/note", "value": genValue(r)}}
}

// genHostileRFC6902 draws operations whose path / from range over the protected members, their elements and
// sub-members, siblings sharing a prefix, "-", escaped tokens, numeric indices and the root (C11 quantifier).
func genHostileRFC6902(r *core.RNG, doc map[string]any) []any {
	protected, other := sortedMembers(doc)
	prot := pointersOf(doc, protected)
	oth := pointersOf(doc, other)
	grammar := []string{"/publicKey", "/service", "/publicKey/0", "/service/0", "/publicKey/-", "/service/-", "/publicKey/0/id",
		"/service/0/serviceEndpoint", "/publicKey/1", "/publicKeys", "/services", "/publicKeyX", "/serviceEndpoint", "/public~0Key", "/public~1Key",
		"/service~1", "", "/", "/publicKey/0/publicKeyJwk/x", "/service/0/id", "/alsoKnownAs", "/alsoKnownAs/0", "/note", "/n2", "/PublicKey", "/Service",
		// pointers that do not start with a slash (not JSON pointers at all; a lenient library may still resolve them)
		"publicKey", "service", "x/publicKey", "x/service", "x/publicKey/0", "x/service/0/id", "./publicKey", " /service", "#/publicKey",
		// empty reference tokens: RFC 6901 pointers whose first token is "" (a member named "") - a tokeniser that collapses slashes reads the member behind
		"//publicKey", "///service", "//publicKey/0", "//service/0/id", "/publicKey/", "/service//", "//", "///"}
	pick := func() string {
		switch r.Intn(4) {
		case 0:
			if len(prot) > 0 {
				return core.Pick(r, prot)
			}
		case 1:
			if len(oth) > 0 {
				return core.Pick(r, oth)
			}
		}
		return core.Pick(r, grammar)
	}
	safe := func() string { return core.Pick(r, []string{"/note", "/n2", "/x~1y", "/meta", "/alsoKnownAs/-"}) }
	var ops []any
	for n := r.Range(1, 3); n > 0; n-- {
		kind := core.Pick(r, []string{"add", "remove", "replace", "move", "copy", "test"})
		op := map[string]any{"op": kind}
		switch kind {
		case "move", "copy":
			if r.Chance(2, 3) {
				op["from"], op["path"] = pick(), safe()
			} else {
				op["from"], op["path"] = safe(), pick()
			}
		default:
			op["path"] = pick()
			if rf := r.Stream(fmt.Sprintf("stray-from/%d", len(ops))); rf.Chance(1, 6) {
				// a member the operation kind does not use, with values of every JSON kind; harmless operations first, so that a
				// reader that stops at the stray member leaves the rest of the list unread
				op["from"] = core.Pick(rf, []any{nil, "", "/note", jsonInt(7), []any{}, map[string]any{}, "/publicKey"})
				if rf.Chance(1, 2) {
					op["path"] = safe()
				}
			}
		}
		if kind == "add" || kind == "replace" || kind == "test" {
			if r.Chance(1, 2) {
				op["value"] = []any{}
			} else {
				op["value"] = genValue(r)
			}
		}
		if rc := r.Stream(fmt.Sprintf("member-case/%d", len(ops))); rc.Chance(1, 6) {
			// member names in another letter case: exact for one reader of the list, the same member for a case-insensitive one
			name := core.Pick(rc, []string{"from", "from", "path", "op", "value"})
			if v, has := op[name]; has {
				variant := core.Pick(rc, []string{strings.ToUpper(name), strings.ToUpper(name[:1]) + name[1:], name[:1] + strings.ToUpper(name[1:2]) + name[2:]})
				op[variant] = v
				switch {
				case name == "from" && rc.Chance(1, 3):
					op["from"] = safe() // the exact member stays, harmless
				default:
					delete(op, name)
				}
			}
		}
		ops = append(ops, op)
		dest, _ := op["path"].(string)
		from := ""
		for _, name := range []string{"from", "From", "FROM", "fRom"} {
			if f, _ := op[name].(string); protectedPointer(f) {
				from = f
			}
		}
		if kind == "copy" && dest != "" && protectedPointer(from) && r.Chance(2, 3) {
			// a copy may share structure with its source: edits beneath the destination must not reach the source
			token := core.Pick(r, []string{"0", "-", "id", "publicKeyJwk/x", "serviceEndpoint", "type", "0/id", "0/publicKeyJwk", "purposes/0"})
			k2 := core.Pick(r, []string{"add", "remove", "replace"})
			op2 := map[string]any{"op": k2, "path": dest + "/" + token}
			if k2 != "remove" {
				op2["value"] = "attacker"
			}
			ops = append(ops, op2)
			if r.Chance(1, 2) {
				ops = append(ops, map[string]any{"op": "remove", "path": dest})
			}
			continue
		}
		// pointers into their own source and edits through aliases can kill the process inside the RFC 6902
		// library (C19 territory); here they would only hide the transition invariant behind a crash
		for _, q := range ref.Quirks(doc, ops) {
			if q == "copy-into-own-source" || q == "move-into-own-source" || q == "edit-after-copy" || q == "test-null" {
				ops = ops[:len(ops)-1]
				break
			}
		}
	}
	if len(ops) == 0 {
		ops = append(ops, map[string]any{"op": "move", "from": pick(), "path": safe()})
	}
	return ops
}

// genSetup draws a starting document as a list of validated patches applied to the empty document.
func genSetup(r *core.RNG, pool *Pool, s *Swarm) []any {
	basic := Swarm{Patches: []string{"add-public-keys", "add-services", "add-also-known-as", "add-public-keys", "add-services"}}
	var other []string
	setup := genPatches(r, pool, &basic, 3, &other)
	if r.Chance(2, 3) {
		setup = append(setup, map[string]any{"action": "ietf-json-patch", "patches": []any{
			map[string]any{"op": "add", "path": "/note", "value": genValue(r)},
			map[string]any{"op": "add", "path": "/meta", "value": map[string]any{"sub": []any{"a", "b", jsonInt(3)}, "k": "v"}},
		}})
	}
	if r.Chance(1, 3) {
		setup = append(setup, map[string]any{"action": "ietf-json-patch", "patches": []any{
			map[string]any{"op": "add", "path": "/" + ptrEscape(core.Pick(r, []string{"a~b", "x/y", "n2"})), "value": genValue(r)}}})
	}
	return setup
}

// GenCompose generates direct composer calls for C10 / C11 / C12.
func GenCompose(prop string, seed uint64, pool *Pool) *Plan {
	r := core.NewRNG(seed).Stream("gen/" + prop)
	p := &Plan{Property: prop, Profile: "compose", Seed: seed, CryptoSeed: core.NewRNG(seed).Stream("crypto").Uint64()}
	p.Swarm = GenSwarm(r.Stream("swarm"), pool)
	s := &p.Swarm
	s.Patches = append([]string{}, allActions...)
	s.Observers = 1
	for n := r.Range(8, 20); n > 0; n-- {
		setup := genSetup(r, pool, s)
		var bigKeys, bigSvcs []string
		if rb := r.Stream(fmt.Sprintf("big/%d", n)); prop == "C10" && rb.Chance(1, 6) {
			// a document with many entries (13-24 keys and / or services): list algorithms that switch strategy with the length
			cnt, which := rb.Range(13, 24), rb.Intn(3)
			var ks, ss []any
			for i := 0; i < cnt; i++ {
				ks = append(ks, genDocKey(rb, pool, fmt.Sprintf("big-%02d", i)))
				ss = append(ss, genService(rb, fmt.Sprintf("svc-%02d", i)))
			}
			if which != 1 {
				setup = append(setup, map[string]any{"action": "add-public-keys", "publicKeys": ks})
				for i := 0; i < cnt; i++ {
					bigKeys = append(bigKeys, fmt.Sprintf("big-%02d", i))
				}
			}
			if which != 0 {
				setup = append(setup, map[string]any{"action": "add-services", "services": ss})
				for i := 0; i < cnt; i++ {
					bigSvcs = append(bigSvcs, fmt.Sprintf("svc-%02d", i))
				}
			}
		}
		doc, err := ref.Compose(map[string]any{}, resolveForGen(pool, setup))
		if err != nil {
			continue
		}
		st := Step{Op: SCompose, Args: map[string]any{"setup": setup}}
		switch prop {
		case "C11":
			st.Patches = []any{map[string]any{"action": "ietf-json-patch", "patches": genHostileRFC6902(r, doc)}}
			if rd := r.Stream("decoy"); rd.Chance(1, 4) {
				// a harmless list validated first whose pointers, written one after the other, read the same as the hostile list's
				// pointers (a single pointer holding the delimiter): whatever the validator remembers about lists by a flattened
				// description cannot tell the two apart
				var ptrs []string
				for _, o := range listOf(st.Patches[0].(map[string]any)["patches"]) {
					om, _ := o.(map[string]any)
					for _, name := range []string{"path", "from"} {
						if v, isStr := om[name].(string); isStr {
							ptrs = append(ptrs, v)
						}
					}
				}
				joined := strings.Join(ptrs, core.Pick(rd, []string{",", ",", "", " ", "|", ";", "\n", "\x00"}))
				if len(ptrs) > 1 && strings.HasPrefix(joined, "/") && !protectedPointer(joined) {
					decoy := Step{Op: SCompose, Args: map[string]any{"setup": setup}, Patches: []any{map[string]any{"action": "ietf-json-patch",
						"patches": []any{map[string]any{"op": "add", "path": joined, "value": jsonInt(1)}}}}}
					p.Steps = append(p.Steps, decoy)
				}
			}
			if r.Chance(1, 4) {
				var other []string
				st.Patches = append(st.Patches, genPatches(r, pool, &Swarm{Patches: []string{"ietf-json-patch"}}, 1, &other)...)
			}
		case "C12":
			var other []string
			st.Patches = genPatches(r, pool, s, 4, &other)
			if r.Chance(1, 2) {
				// a list that fails at the k-th patch
				k := r.Intn(len(st.Patches) + 1)
				bad := map[string]any{"action": "ietf-json-patch", "patches": []any{map[string]any{"op": "remove", "path": "/definitely-missing"}}}
				st.Patches = append(st.Patches[:k:k], append([]any{bad}, st.Patches[k:]...)...)
			}
			if r.Chance(1, 3) {
				if docK, kerr := ref.Compose(doc, resolveForGen(pool, st.Patches)); kerr == nil {
					st.Patches = append(st.Patches, map[string]any{"action": "ietf-json-patch", "patches": genRFC6902Clean(r, docK)})
				}
			}
			// any patch list is in C12's quantifier, also ones validation would refuse: empty operation arrays (they
			// apply as no-ops) in front of patches that edit the document
			if r.Chance(1, 5) {
				empties := []any{}
				for n := r.Range(1, 2); n > 0; n-- {
					empties = append(empties, map[string]any{"action": "ietf-json-patch", "patches": []any{}})
				}
				st.Patches = append(empties, st.Patches...)
			}
			st.Args["ctor"] = r.Chance(1, 2)
		default: // C10
			st.Args["ctor"] = r.Chance(1, 3)
			var other []string
			st.Patches = strayListMembers(r.Stream("stray-members"), genPatches(r, pool, s, 4, &other))
			if len(bigKeys)+len(bigSvcs) > 0 {
				// removals and re-additions that hit existing entries of the long lists (first, middle, last) and miss some
				rb := r.Stream("big-patches")
				var pre []any
				if len(bigKeys) > 0 {
					sub := core.Subset(rb, bigKeys, 1, 4)
					if len(sub) == 0 {
						sub = []string{core.Pick(rb, bigKeys)}
					}
					ids := strList(append(sub, "unknown-key"))
					pre = append(pre, map[string]any{"action": "remove-public-keys", "ids": ids})
					if rb.Chance(1, 2) {
						pre = append(pre, map[string]any{"action": "add-public-keys", "publicKeys": []any{genDocKey(rb, pool, core.Pick(rb, bigKeys)), genDocKey(rb, pool, "big-new")}})
					}
				}
				if len(bigSvcs) > 0 {
					sub := core.Subset(rb, bigSvcs, 1, 4)
					if len(sub) == 0 {
						sub = []string{core.Pick(rb, bigSvcs)}
					}
					ids := strList(append(sub, "unknown-svc"))
					pre = append(pre, map[string]any{"action": "remove-services", "ids": ids})
					if rb.Chance(1, 2) {
						pre = append(pre, map[string]any{"action": "add-services", "services": []any{genService(rb, core.Pick(rb, bigSvcs)), genService(rb, "svc-new")}})
					}
				}
				core.Shuffle(rb, pre)
				k := rb.Intn(len(st.Patches) + 1)
				st.Patches = append(st.Patches[:k:k], append(pre, st.Patches[k:]...)...)
			}
			if r.Chance(1, 2) {
				k := r.Intn(len(st.Patches) + 1)
				docK, kerr := ref.Compose(doc, resolveForGen(pool, st.Patches[:k]))
				if kerr != nil {
					k, docK = 0, doc
				}
				full := map[string]any{"action": "ietf-json-patch", "patches": genRFC6902Clean(r, docK)}
				st.Patches = append(st.Patches[:k:k], append([]any{full}, st.Patches[k:]...)...)
			}
		}
		p.Steps = append(p.Steps, st)
	}
	return p
}

// resolveForGen resolves {"$key": i} placeholders at generation time (the generator needs the real shape of
// the starting document to aim pointers at it).
func resolveForGen(pool *Pool, patches []any) []any {
	w := &World{Pool: pool}
	out, _ := w.resolvePatches(patches).([]any)
	return out
}

func describeComposePlan(p *Plan) any {
	var steps []any
	for i, st := range p.Steps {
		if i >= 3 {
			break
		}
		steps = append(steps, map[string]any{"setup": st.Args["setup"], "patches": st.Patches})
	}
	return map[string]any{"seed": p.Seed, "profile": p.Profile, "calls": len(p.Steps), "first_calls": steps}
}

func init() {
	composeComponents := map[string]string{
		"doccomposer.DocumentComposer.ApplyPatches":             "real",
		"patchvalidator.Validate, patch.FromBytes":              "real",
		"github.com/evanphx/json-patch (RFC 6902 library)":      "real",
		"document accessors (pkg/document)":                     "real",
		"per-action semantics / RFC 6902 interpreter (sim/ref)": "reference model",
		"caller that holds earlier document versions":           "stub",
	}
	register(&Property{
		ID: "C10", Level: "exploration", EvalCounter: "patch_lists_checked",
		Rule: "seeded document state machine: a starting document reached from the empty document by validated patches (library result cross-checked), then a list of 1-5 " +
			"validated patches over all eight actions with ids drawn from a small space (collide / overlap / miss), RFC 6902 operations of all six kinds aimed at the real " +
			"non-protected content (nested values, array elements, '-', escaped tokens); result compared with the reference fold, at-once vs one-at-a-time, id uniqueness. " +
			"distinct_nontrivial = distinct (action sequence, applicable?) pairs",
		Cases: func(master uint64, tier string) []Case {
			if tier == "thorough" {
				return seqCases(master, 400000, nil)
			}
			return seqCases(master, 6000, nil)
		},
		Gen:         func(c Case, pool *Pool) *Plan { return GenCompose("C10", c.Seed, pool) },
		Components:  composeComponents,
		Assumptions: worldAssumptions,
	})
	register(&Property{
		ID: "C11", Level: "exploration", EvalCounter: "validated_lists_applied",
		Rule: "seeded hostile RFC 6902 lists (all six operation kinds; path and from drawn from the protected members of the actual document, their elements and sub-members, " +
			"siblings sharing a prefix, '-', escaped tokens, numeric indices, the root); transition invariant: validated and applied => publicKey and service views are " +
			"value-identical before and after. distinct_nontrivial = distinct (operation-kind sequence, which pointer is protected) shapes of lists that were validated and applied",
		Cases: func(master uint64, tier string) []Case {
			if tier == "thorough" {
				return seqCases(master, 600000, nil)
			}
			return seqCases(master, 9000, nil)
		},
		Gen:         func(c Case, pool *Pool) *Plan { return GenCompose("C11", c.Seed, pool) },
		Components:  composeComponents,
		Assumptions: worldAssumptions,
	})
	_ = fmt.Sprint
}

func isContainerValue(v any) bool {
	switch v.(type) {
	case map[string]any, []any:
		return true
	}
	return false
}

// strayListMembers puts, into some id / uri lists of remove patches, a member that is not a string (validation skips such
// members, and so do the documented semantics: they name nothing): in front of, between and behind the real ones.
func strayListMembers(r *core.RNG, patches []any) []any {
	for _, p := range patches {
		m, _ := p.(map[string]any)
		for _, member := range []string{"ids", "uris"} {
			l, isList := m[member].([]any)
			a, _ := m["action"].(string)
			if !isList || !strings.HasPrefix(a, "remove-") || !r.Chance(1, 4) {
				continue
			}
			k := r.Intn(len(l) + 1)
			stray := core.Pick(r, []any{jsonInt(7), nil, true, map[string]any{"id": "k1"}, []any{"k1"}})
			m[member] = append(append(append([]any{}, l[:k]...), stray), l[k:]...)
		}
	}
	return patches
}
