package sim

import (
	"encoding/json"
	"fmt"
	"runtime/debug"
	"strings"
	"syscall"

	"github.com/trustbloc/sidetree-go/pkg/api/operation"
	"github.com/trustbloc/sidetree-go/pkg/api/protocol"
	"github.com/trustbloc/sidetree-go/pkg/canonicalizer"
	"github.com/trustbloc/sidetree-go/pkg/commitment"
	"github.com/trustbloc/sidetree-go/pkg/document"
	"github.com/trustbloc/sidetree-go/pkg/docutil"
	"github.com/trustbloc/sidetree-go/pkg/hashing"
	"github.com/trustbloc/sidetree-go/pkg/jws"
	"github.com/trustbloc/sidetree-go/pkg/jwsutil"
	"github.com/trustbloc/sidetree-go/pkg/patch"
	"github.com/trustbloc/sidetree-go/pkg/vdr/sidetreelongform"
	"github.com/trustbloc/sidetree-go/pkg/vdr/sidetreelongform/dochandler"
	"github.com/trustbloc/sidetree-go/pkg/versions/1_0/doctransformer/didtransformer"
	"github.com/trustbloc/sidetree-go/pkg/versions/1_0/doctransformer/doctransformer"
	"github.com/trustbloc/sidetree-go/pkg/versions/1_0/operationparser/patchvalidator"

	"verif/sim/core"
	"verif/sim/ref"
)

// ---- structure-aware corruption of JSON values

var hostileScalars = []any{nil, true, false, json.Number("0"), json.Number("-1"), json.Number("12345678901234567890"), json.Number("1e308"),
	json.Number("-0.0000001"), "", "x", "-1", "/", "~", "#", ":", "did:x:y:z", strings.Repeat("A", 300), []any{}, map[string]any{},
	[]any{[]any{[]any{}}}, map[string]any{"": map[string]any{"": nil}}, []any{nil, "a", json.Number("1")}}

type nodeRef struct {
	parent any
	key    string
	idx    int
}

func collectNodes(v any, out *[]nodeRef) {
	switch x := v.(type) {
	case map[string]any:
		for _, k := range core.SortedKeys(x) {
			*out = append(*out, nodeRef{parent: x, key: k, idx: -1})
			collectNodes(x[k], out)
		}
	case []any:
		for i := range x {
			*out = append(*out, nodeRef{parent: x, idx: i})
			collectNodes(x[i], out)
		}
	}
}

// corruptJSON applies n structure-aware corruptions to a deep copy of v: wrong JSON type at a random position,
// missing member, huge / empty value, duplicated or wrapped node, type swap.
func corruptJSON(r *core.RNG, v any, n int) any {
	cp := ref.Clone(v)
	for ; n > 0; n-- {
		var nodes []nodeRef
		collectNodes(cp, &nodes)
		if len(nodes) == 0 {
			return core.Pick(r, hostileScalars)
		}
		nd := core.Pick(r, nodes)
		get := func() any {
			if nd.idx >= 0 {
				return nd.parent.([]any)[nd.idx]
			}
			return nd.parent.(map[string]any)[nd.key]
		}
		set := func(x any) {
			if nd.idx >= 0 {
				nd.parent.([]any)[nd.idx] = x
			} else {
				nd.parent.(map[string]any)[nd.key] = x
			}
		}
		switch r.Intn(8) {
		case 0:
			if nd.idx < 0 {
				delete(nd.parent.(map[string]any), nd.key)
				continue
			}
			set(nil)
		case 1:
			set([]any{get()})
		case 2:
			set(map[string]any{"x": get()})
		case 3:
			switch x := get().(type) {
			case string:
				if len(x) > 0 && r.Chance(1, 2) {
					// another spelling of the same word: case changes (name comparisons that are exact in one place and
					// case-insensitive in another)
					switch r.Intn(3) {
					case 0:
						set(strings.ToUpper(x))
					case 1:
						set(strings.ToLower(x))
					default:
						b := []byte(x)
						i := r.Intn(len(b))
						if b[i] >= 'a' && b[i] <= 'z' {
							b[i] -= 32
						} else if b[i] >= 'A' && b[i] <= 'Z' {
							b[i] += 32
						}
						set(string(b))
					}
				} else if len(x) > 0 {
					set(x[:len(x)/2])
				} else {
					set(json.Number("7"))
				}
			case json.Number:
				set(string(x))
			default:
				set("was-container")
			}
		case 4:
			if s, ok := get().(string); ok {
				set(s + s + strings.Repeat("=", 3))
			} else {
				set(strings.Repeat("z", 2000))
			}
		default:
			set(ref.Clone(core.Pick(r, hostileScalars)))
		}
	}
	return cp
}

func corruptBytes(r *core.RNG, b []byte) []byte {
	out := append([]byte{}, b...)
	if len(out) == 0 {
		return []byte{byte(r.Intn(256))}
	}
	switch r.Intn(6) {
	case 0:
		out[r.Intn(len(out))] ^= 1 << uint(r.Intn(8))
	case 1:
		out = out[:r.Intn(len(out))]
	case 2:
		i := r.Intn(len(out))
		out = append(out[:i], append(r.Bytes(r.Range(1, 8)), out[i:]...)...)
	case 3:
		i := r.Intn(len(out))
		out = append(out[:i], out[i+1:]...)
	case 4:
		out = r.Bytes(r.Range(0, 64))
	default:
		i, j := r.Intn(len(out)), r.Intn(len(out))
		out[i], out[j] = out[j], out[i]
	}
	return out
}

// hostile RFC 6902 lists: negative and out-of-range indices, odd pointers, pointers into their own source.
func genEvilRFC6902(r *core.RNG) []any {
	ptrs := []string{"", "/", "//", "/~", "/~2", "/a/-1", "/note/-1", "/tags/-1", "/tags/99", "/tags/1e3", "/tags/01", "/tags/+1", "/tags/ 1", "/tags/-", "/tags/--",
		"/note", "/meta", "/meta/sub", "/meta/sub/0", "/meta/sub/-1", "/meta/sub/9223372036854775807", "/meta/sub/-9223372036854775808", "/alsoKnownAs/-1",
		"/alsoKnownAs/0", "/x~1y", "/a~0b", "note", "/meta/k/deeper", "/meta/sub/0/x", "/" + strings.Repeat("a/", 200)}
	var ops []any
	for n := r.Range(1, 4); n > 0; n-- {
		op := map[string]any{"op": core.Pick(r, []string{"add", "remove", "replace", "move", "copy", "test", "ADD", "", "nop"}), "path": core.Pick(r, ptrs)}
		if r.Chance(1, 2) {
			op["from"] = core.Pick(r, ptrs)
		}
		if r.Chance(2, 3) {
			op["value"] = ref.Clone(core.Pick(r, hostileScalars))
		}
		switch r.Intn(12) {
		case 0:
			delete(op, "path")
		case 1:
			op["path"] = json.Number("5")
		case 2:
			op["from"] = nil
		case 3:
			op["op"] = json.Number("1")
		}
		ops = append(ops, op)
	}
	return ops
}

// ---- the calls

type hostileCtx struct {
	w        *World
	r        *core.RNG
	handler  *dochandler.DocumentHandler
	vdr      *sidetreelongform.VDR
	requests map[string][]byte         // valid requests by kind (world protocol)
	reqJSON  map[string]map[string]any // the same as generic JSON
	longDID  string                    // valid long-form DID of the fixed long-form protocol
	createLF []byte
	state    *protocol.ResolutionModel // a state to apply operations to
	jwsStr   string
	jwk      map[string]any
	doc      map[string]any
}

// guard runs one library call; a panic is a C19 violation and the run goes on. CPU time is measured with getrusage
// (the bubble's clock is simulated) so that a call that burns seconds is reported too.
func (h *hostileCtx) guard(entry string, input func() string, f func()) {
	w := h.w
	w.T.Count("hostile_calls", 1)
	w.T.Fault("hostile_" + entry)
	w.T.Mark("entry:" + entry)
	var ru0 syscall.Rusage
	_ = syscall.Getrusage(syscall.RUSAGE_SELF, &ru0)
	defer func() {
		if rec := recover(); rec != nil {
			site, full := panicSite(string(debug.Stack()))
			if strings.Contains(full, "verif/sim") {
				panic(fmt.Sprintf("harness panic in hostile call %s: %v\n%s", entry, rec, debug.Stack()))
			}
			w.violate("C19/panic", site, "%s panicked (%v) at %s on input %s", entry, rec, site, clipN([]byte(input()), 600))
		}
		var ru1 syscall.Rusage
		_ = syscall.Getrusage(syscall.RUSAGE_SELF, &ru1)
		cpu := (ru1.Utime.Sec-ru0.Utime.Sec)*1000 + int64(ru1.Utime.Usec-ru0.Utime.Usec)/1000
		if cpu > 4000 {
			w.violate("C19/does-not-terminate-in-time", entry, "%s used %d ms of CPU on input %s", entry, cpu, clipN([]byte(input()), 300))
		}
	}()
	f()
}

func (w *World) newHostileCtx(stepIdx int) *hostileCtx {
	h := &hostileCtx{w: w, r: core.NewRNG(w.Plan.Seed).Stream(fmt.Sprintf("c19/%d", stepIdx)), requests: map[string][]byte{}, reqJSON: map[string]map[string]any{}}
	r := h.r
	var err error
	if h.handler, err = dochandler.New("did:ion"); err != nil {
		panic("harness: " + err.Error())
	}
	// valid requests of every kind under the world's protocol
	wl := w.wallet(0)
	d := &genDID{}
	s := w.Plan.Swarm
	for _, k := range []ref.OpKind{ref.Create, ref.Update, ref.Recover, ref.Deactivate} {
		st := opStep(r, w.Pool, &s, d, k, ref.FNone, true)
		st.Builder = "raw"
		if op := wl.build(stepIdx, &st); op != nil {
			h.requests[string(k)] = op.Bytes
			if v, perr := ref.Parse(op.Bytes); perr == nil {
				h.reqJSON[string(k)], _ = v.(map[string]any)
			}
			if k == ref.Create {
				h.state, _ = w.Applier.Apply(&operation.AnchoredOperation{Type: operation.TypeCreate, UniqueSuffix: op.Truth.Suffix, OperationRequest: op.Bytes,
					TransactionTime: uint64(Epoch)}, &protocol.ResolutionModel{})
			}
			if k == ref.Update {
				h.jwsStr, _ = h.reqJSON[string(k)]["signedData"].(string)
			}
		}
	}
	if h.state == nil {
		h.state = &protocol.ResolutionModel{Doc: document.Document{}}
	}
	// a valid long-form DID of the long-form protocol (SHA-256, standard patches)
	lfPatches := []any{map[string]any{"action": "add-public-keys", "publicKeys": []any{map[string]any{"id": "k1", "type": "JsonWebKey2020",
		"purposes": []any{"authentication"}, "publicKeyJwk": docJWK(w.Pool.Get(0))}}},
		map[string]any{"action": "add-services", "services": []any{map[string]any{"id": "s1", "type": "hub", "serviceEndpoint": "https://example.com/s1"}}}}
	delta := map[string]any{"updateCommitment": ref.Commitment(ref.SHA256, w.Pool.Get(1).RefJWK("")), "patches": lfPatches}
	sd := map[string]any{"deltaHash": ref.ModelHash(ref.SHA256, delta), "recoveryCommitment": ref.Commitment(ref.SHA256, w.Pool.Get(2).RefJWK(""))}
	req := map[string]any{"delta": delta, "suffixData": sd}
	h.createLF = ref.JCS(map[string]any{"type": "create", "delta": delta, "suffixData": sd})
	h.longDID = "did:ion:" + ref.ModelHash(ref.SHA256, sd) + ":" + ref.B64(ref.JCS(req))
	h.reqJSON["longform"] = req
	h.jwk = w.Pool.Get(r.Intn(len(w.Pool.Keys))).RefJWK("")
	h.doc, _ = ref.Compose(map[string]any{}, resolveForGen(w.Pool, genSetup(r, w.Pool, &s)))
	return h
}

// execHostile delivers one batch of hostile inputs to the entry point named by the step.
func (w *World) execHostile(stepIdx int, st *Step) {
	h := w.newHostileCtx(stepIdx)
	r := h.r
	target, _ := st.Args["target"].(string)
	rounds := toInt(st.Args["rounds"])
	if rounds == 0 {
		rounds = 20
	}
	ns := w.Plan.Swarm.Namespace
	kinds := []string{"create", "update", "recover", "deactivate"}
	hostileRequest := func() []byte {
		k := core.Pick(r, kinds)
		base := h.reqJSON[k]
		if base == nil {
			return r.Bytes(20)
		}
		switch r.Intn(7) {
		case 0:
			return corruptBytes(r, h.requests[k])
		case 1:
			return r.Bytes(r.Range(0, 200))
		case 2, 3:
			// structure-aware corruption INSIDE the signed payload (it is decoded and validated before any signature is checked),
			// including the optional members a valid sample does not have: present with empty, short, long and huge values
			jwsStr, _ := base["signedData"].(string)
			hd, p, sig, ok := splitJWS(jwsStr)
			pv, perr := ref.Parse(p)
			pm, isObj := pv.(map[string]any)
			if sd, isCreate := base["suffixData"].(map[string]any); isCreate && r.Chance(1, 2) {
				out := ref.Clone(base).(map[string]any)
				nsd := ref.Clone(sd).(map[string]any)
				nsd[core.Pick(r, []string{"deltaHash", "recoveryCommitment"})] = ref.B64(ref.MultihashBytes(core.Pick(r, []uint{ref.SHA256, ref.SHA512}), r.Bytes(core.Pick(r, []int{0, 1, 16, 31, 33, 63, 65}))))
				out["suffixData"] = nsd
				return ref.JCS(out)
			}
			if !ok || perr != nil || !isObj {
				return ref.JCS(corruptJSON(r, base, r.Range(1, 3)))
			}
			pm = ref.Clone(pm).(map[string]any)
			sizes := []int{0, 1, int(w.Plan.Swarm.NonceSize) - 1, int(w.Plan.Swarm.NonceSize), int(w.Plan.Swarm.NonceSize) + 1, 2 * int(w.Plan.Swarm.NonceSize), 64, 3000}
			blob := func() any {
				n := core.Pick(r, sizes)
				if n < 0 {
					n = 0
				}
				if r.Chance(1, 6) {
					return core.Pick(r, hostileScalars)
				}
				if r.Chance(1, 3) {
					// a well-formed multihash of a configured code whose digest has another length than the algorithm's
					return ref.B64(ref.MultihashBytes(core.Pick(r, []uint{ref.SHA256, ref.SHA512}), r.Bytes(core.Pick(r, []int{0, 1, 16, 31, 33, 63, 65}))))
				}
				return ref.B64(r.Bytes(n))
			}
			switch r.Intn(3) {
			case 0:
				pm, _ = corruptJSON(r, pm, r.Range(1, 2)).(map[string]any)
			case 1:
				for _, km := range []string{"updateKey", "recoveryKey"} {
					if j, isKey := pm[km].(map[string]any); isKey {
						j[core.Pick(r, []string{"nonce", "nonce", "d", "alg", "kid", "x5c", "use", "key_ops"})] = blob()
					}
				}
			default:
				pm[core.Pick(r, []string{"anchorFrom", "anchorUntil", "anchorOrigin", "revealValue", "didSuffix", "deltaHash", "recoveryCommitment", "nonce"})] = blob()
			}
			out := ref.Clone(base).(map[string]any)
			out["signedData"] = joinJWS(hd, ref.JCS(pm), sig)
			if r.Chance(1, 4) {
				// ... and the hash-valued members of the request itself
				out[core.Pick(r, []string{"revealValue", "didSuffix"})] = blob()
			}
			return ref.JCS(out)
		default:
			return ref.JCS(corruptJSON(r, base, r.Range(1, 3)))
		}
	}
	for i := 0; i < rounds; i++ {
		switch target {
		case "parse":
			b := hostileRequest()
			in := func() string { return string(b) }
			h.guard("Parser.Parse", in, func() { _, _ = w.Intake.parser.Parse(ns, b) })
			h.guard("Parser.ParseOperation(batch)", in, func() { _, _ = w.Parser.ParseOperation(ns, b, true) })
			h.guard("Parser.GetRevealValue", in, func() { _, _ = w.Parser.GetRevealValue(b) })
			h.guard("Parser.GetCommitment", in, func() { _, _ = w.Parser.GetCommitment(b) })
		case "apply":
			b := hostileRequest()
			typ := operation.Type(core.Pick(r, append(kinds, "bogus", "")))
			op := &operation.AnchoredOperation{Type: typ, UniqueSuffix: "x", OperationRequest: b, TransactionTime: uint64(Epoch + int64(r.Intn(1000)))}
			rm := h.state
			if r.Chance(1, 4) {
				rm = &protocol.ResolutionModel{}
			}
			h.guard("Applier.Apply", func() string { return string(typ) + " " + string(b) }, func() {
				next, err := w.Applier.Apply(op, rm)
				if err == nil && next != nil && r.Chance(1, 2) {
					// documents assembled from hostile-but-accepted operations go through the transformers
					id := ns + ":x"
					info := docutil.GetTransformationInfoForPublished(ns, id, "x", next)
					_, _ = didtransformer.New(didtransformer.WithBase(r.Chance(1, 2))).TransformDocument(next, info)
				}
			})
		case "did":
			var did string
			switch r.Intn(6) {
			case 0:
				did = string(corruptBytes(r, []byte(h.longDID)))
			case 1:
				did = "did:ion:" + ref.B64(r.Bytes(8)) + ":" + ref.B64(r.Bytes(r.Range(0, 80)))
			case 2:
				did = strings.Repeat(":", r.Intn(6)) + core.Pick(r, []string{"", "did", "did:ion", "did:ion:", "did:ion::", "did:ion:a:b:c:d"})
			default:
				did = "did:ion:" + ref.ModelHash(ref.SHA256, h.reqJSON["longform"]["suffixData"]) + ":" + ref.B64(ref.JCS(corruptJSON(r, h.reqJSON["longform"], r.Range(1, 3))))
			}
			in := func() string { return did }
			h.guard("DocumentHandler.ResolveDocument", in, func() { _, _ = h.handler.ResolveDocument(did) })
			h.guard("Parser.ParseDID", in, func() { _, _, _ = w.Parser.ParseDID(core.Pick(r, []string{"did:ion", "", ":", "did"}), did) })
			if i%8 == 0 {
				if h.vdr == nil {
					h.vdr, _ = sidetreelongform.New()
				}
				if h.vdr != nil {
					h.guard("VDR.Read", in, func() { _, _ = h.vdr.Read(did) })
				}
			}
		case "process":
			var b []byte
			switch r.Intn(5) {
			case 0:
				// valid operations of an unexpected type for this endpoint
				b = h.requests[core.Pick(r, kinds[1:])]
			case 1:
				b = corruptBytes(r, h.createLF)
			default:
				var v any
				_ = json.Unmarshal(h.createLF, &v)
				pv, _ := ref.Parse(h.createLF)
				b = ref.JCS(corruptJSON(r, pv, r.Range(1, 3)))
			}
			h.guard("DocumentHandler.ProcessOperation", func() string { return string(b) }, func() { _, _ = h.handler.ProcessOperation(b) })
		case "jws":
			s := h.jwsStr
			switch r.Intn(5) {
			case 0:
				s = string(corruptBytes(r, []byte(s)))
			case 1:
				s = strings.Repeat(".", r.Intn(5)) + ref.B64(r.Bytes(r.Intn(40)))
			case 2:
				hd, p, sig, ok := splitJWS(s)
				if ok {
					if pv, perr := ref.Parse(hd); perr == nil {
						hd = ref.JCS(corruptJSON(r, pv, 1))
					}
					s = joinJWS(hd, p, sig[:r.Intn(len(sig)+1)])
				}
			case 3:
				s = "{" + s
			}
			jwkv := corruptJSON(r, h.jwk, r.Intn(3))
			var j jws.JWK
			jb, _ := json.Marshal(jwkv)
			_ = json.Unmarshal(jb, &j)
			in := func() string { return s + " key " + string(jb) }
			h.guard("jwsutil.ParseJWS", in, func() { _, _ = jwsutil.ParseJWS(s) })
			h.guard("jwsutil.VerifyJWS", in, func() { _, _ = jwsutil.VerifyJWS(s, &j) })
			h.guard("jwsutil.VerifySignature", in, func() { _ = jwsutil.VerifySignature(&j, r.Bytes(r.Intn(140)), []byte("m")) })
			h.guard("jwsutil.JWK.UnmarshalJSON", in, func() { var k jwsutil.JWK; _ = k.UnmarshalJSON(jb) })
			h.guard("jwsutil.JWK.UnmarshalJSON(bytes)", in, func() { var k jwsutil.JWK; _ = k.UnmarshalJSON(corruptBytes(r, jb)) })
			h.guard("jwsutil.GetED25519PublicKey", in, func() { _, _ = jwsutil.GetED25519PublicKey(&j) })
			h.guard("commitment.GetCommitment", in, func() { _, _ = commitment.GetCommitment(&j, uint(core.Pick(r, []int{18, 19, 0, 22, 1 << 20}))) })
		case "canonical":
			var b []byte
			switch r.Intn(7) {
			case 6:
				// a JSON text written by hand (every escape form, surrogate pairs and lone surrogates, numbers in every notation)
				// cut off at an arbitrary byte: a reader that looks ahead must notice the end of its input everywhere
				full := core.Pick(r, escapeTexts)
				b = []byte(full[:r.Intn(len(full)+1)])
			case 0:
				b = r.Bytes(r.Range(0, 100))
			case 1:
				depth := r.Range(10, 20000)
				b = []byte(strings.Repeat(core.Pick(r, []string{"[", "{\"a\":"}), depth))
			case 2:
				b = corruptBytes(r, ref.JCS(h.doc))
			case 3:
				b = []byte(core.Pick(r, []string{"1e400", "-", "\"\\ud800\"", "\"\\u12\"", "[1,]", "{\"a\":1,\"a\":2}", "nul", "0x10", "01", "1.", ".5", "\"\x00\"", "\xef\xbb\xbf{}", "{}{}"}))
			default:
				b = reencode(r, corruptJSON(r, h.doc, 2))
			}
			in := func() string { return string(b) }
			h.guard("canonicalizer.MarshalCanonical(bytes)", in, func() { _, _ = canonicalizer.MarshalCanonical(b) })
			h.guard("hashing.IsValidModelMultihash", in, func() { _ = hashing.IsValidModelMultihash(b, string(corruptBytes(r, []byte(ref.HashBytes(18, b))))) })
			h.guard("hashing.GetMultihashCode", in, func() { _, _ = hashing.GetMultihashCode(string(b)) })
			h.guard("commitment.GetCommitmentFromRevealValue", in, func() { _, _ = commitment.GetCommitmentFromRevealValue(string(b)) })
			h.guard("docutil.GetNamespaceFromID", in, func() { _, _ = docutil.GetNamespaceFromID(string(b)) })
		case "patch":
			var other []string
			s := w.Plan.Swarm
			base := resolveForGen(w.Pool, genPatches(r, w.Pool, &s, 3, &other))
			var patches []any
			for _, p := range base {
				switch r.Intn(4) {
				case 0:
					patches = append(patches, p)
				case 1:
					patches = append(patches, map[string]any{"action": "ietf-json-patch", "patches": genEvilRFC6902(r)})
				default:
					patches = append(patches, corruptJSON(r, p, r.Range(1, 2)))
				}
			}
			if r.Chance(1, 3) {
				// keys whose type, kty and crv do not belong together, in every spelling
				var hk []any
				for n := r.Range(1, 3); n > 0; n-- {
					hk = append(hk, map[string]any{"id": fmt.Sprintf("h%d", n),
						"type": core.Pick(r, []string{"Ed25519VerificationKey2018", "Ed25519VerificationKey2020", "JsonWebKey2020", "EcdsaSecp256k1VerificationKey2019", "X25519KeyAgreementKey2019"}),
						"publicKeyJwk": map[string]any{"kty": core.Pick(r, []string{"EC", "ec", "Ec", "OKP", "okp", "RSA", "oct"}),
							"crv": core.Pick(r, []string{"secp256k1", "SECP256K1", "Secp256k1", "secp256K1", "P-256", "p-256", "P-384", "P-521", "Ed25519", "ED25519", "ed25519", "X25519", "P-999"}),
							"x":   ref.B64(r.Bytes(core.Pick(r, []int{0, 1, 31, 32, 33, 48, 66}))), "y": ref.B64(r.Bytes(core.Pick(r, []int{0, 32, 33, 48, 66})))}})
				}
				patches = append(patches, map[string]any{"action": "add-public-keys", "publicKeys": hk})
			}
			var lps []patch.Patch
			for _, p := range patches {
				b := ref.JCS(p)
				h.guard("patch.FromBytes", func() string { return string(b) }, func() {
					if lp, err := patch.FromBytes(b); err == nil {
						lps = append(lps, lp)
					}
				})
			}
			in := func() string { return string(ref.JCS(patches)) }
			valid := true
			for _, lp := range lps {
				lp := lp
				h.guard("patchvalidator.Validate", in, func() {
					if patchvalidator.Validate(lp) != nil {
						valid = false
					}
				})
			}
			docv := h.doc
			if r.Chance(1, 3) {
				docv, _ = corruptJSON(r, h.doc, 2).(map[string]any)
			}
			libDoc, _ := document.FromBytes(ref.JCS(docv))
			if libDoc == nil {
				libDoc = document.Document{}
			}
			// the composer is reached with validated patches (through Apply) and, being a public entry point, directly
			if valid || r.Chance(1, 2) {
				h.guard("DocumentComposer.ApplyPatches", func() string { return string(ref.JCS(docv)) + " <- " + in() }, func() {
					out, err := w.Composer.ApplyPatches(libDoc, lps)
					if err == nil && out != nil {
						rm := &protocol.ResolutionModel{Doc: out, VersionID: "v", RecoveryCommitment: "r"}
						info := docutil.GetTransformationInfoForUnpublished(ns, "", "", "suffix", "")
						_, _ = didtransformer.New(didtransformer.WithBase(r.Chance(1, 2))).TransformDocument(rm, info)
						_, _ = doctransformer.New().TransformDocument(&protocol.ResolutionModel{Doc: cloneDoc(out)}, info)
					}
				})
			}
		}
	}
}

func cloneDoc(d document.Document) document.Document {
	b, _ := json.Marshal(d)
	out, _ := document.FromBytes(b)
	return out
}

var hostileTargets = []string{"parse", "apply", "did", "process", "jws", "canonical", "patch"}

// GenHostile generates C19 plans.
func GenHostile(seed uint64, pool *Pool) *Plan {
	p, r := basePlan("C19", "hostile", seed, pool)
	for _, t := range hostileTargets {
		p.Steps = append(p.Steps, Step{Op: SCall, Name: "hostile", Args: map[string]any{"target": t, "rounds": r.Range(10, 30)}})
	}
	core.Shuffle(r, p.Steps)
	return p
}

func init() {
	register(&Property{
		ID: "C19", Level: "exploration", EvalCounter: "hostile_calls",
		Rule: "seeded corruption-heavy profile: arbitrary byte strings and structure-aware corruptions (wrong JSON type at random positions, missing members, huge / empty " +
			"values, wrapped / duplicated nodes, negative and out-of-range pointer indices, pointers into their own source, valid operations of an unexpected type, deep nesting) " +
			"of valid operations, long-form DIDs, JWS, JWKs, patches and documents are delivered to Parse / ParseOperation / GetRevealValue / GetCommitment, ParseDID, " +
			"ResolveDocument, VDR.Read, ProcessOperation, ParseJWS / VerifyJWS / VerifySignature, JWK.UnmarshalJSON, MarshalCanonical, hashing and commitment helpers, " +
			"patch.FromBytes, patchvalidator.Validate, ApplyPatches, Apply and the transformers; every call is wrapped in recover, CPU time is measured, a process killed by a " +
			"fatal error is attributed to its case by the driver. Panics are also asserted in every other profile. distinct_nontrivial = distinct (entry point) x runs is not " +
			"meaningful here: it counts distinct entry points reached",
		Cases: func(master uint64, tier string) []Case {
			n := 800
			if tier == "thorough" {
				n = 20000
			}
			return seqCases(master, n, nil)
		},
		Gen: func(c Case, pool *Pool) *Plan { return GenHostile(c.Seed, pool) },
		Components: map[string]string{"every public entry point named in the rule": "real", "evanphx/json-patch, go-jose, go-multihash, did-go": "real (third party)",
			"sender of hostile input": "stub (adversary / hostile wallet)"},
		Assumptions: worldAssumptions,
	})
}

// escapeTexts: hand-written JSON texts with every escape form; the hostile generator truncates them at every offset.
var escapeTexts = []string{
	`{"a":"\ud83d\ude00","b":"\u00e9\u2028\\\"\/\b\f\n\r\t","\ud83d\ude00":1}`,
	`["\ud83d","\ude00x","\uD83D\uDE00","\ud83d\u0041"]`,
	`{"type":"create","suffixData":{"anchorOrigin":"\uD83D\uDE00","deltaHash":"EiA"},"delta":{"patches":[]}}`,
	`{"n":[1e21,-0,0.000001,1E-7,123456789012345678901234567890,4.5e-324,1.7976931348623157e308],"t":true,"f":false,"z":null}`,
	`"\udc00\ud800"`,
}
