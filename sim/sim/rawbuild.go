package sim

import (
	"encoding/json"
	"strings"

	"verif/sim/core"
	"verif/sim/ref"
)

// rawBuild is the harness's own request builder. It uses only the reference canonicaliser / hashes and the
// crypto primitives, so that hostile and faulted requests can be produced with valid signatures, and so that
// the library's builders are cross-checked by an independent implementation.
type rawBuild struct {
	w          *World
	kind       ref.OpKind
	alg        uint
	suffix     string
	patches    []any
	updCommit  string
	recCommit  string
	origin     any
	hasOrigin  bool
	entityType string
	from       int64
	until      int64
	sign       keyUse
	kid        string
	reveal     string
	header     map[string]any
	extra      map[string]any // Step.SignedExtra
	keyExtras  bool           // Step.KeyExtras

	// products
	delta   map[string]any
	payload map[string]any // signed data payload
	req     map[string]any
	raw     []byte // when set, the request bytes are these (unparsable class)
	// overrides used by faults
	signWith    *Key           // sign with this key instead of the embedded one
	deltaAfter  map[string]any // delta swapped after signing
	mangleSig   func(sig []byte) []byte
	jwsOverride string
}

func (rb *rawBuild) build() {
	if rb.kind != ref.Deactivate {
		rb.delta = map[string]any{"updateCommitment": rb.updCommit}
		if len(rb.patches) > 0 {
			rb.delta["patches"] = rb.patches
		}
	}
	switch rb.kind {
	case ref.Create:
		sd := map[string]any{"deltaHash": ref.ModelHash(rb.alg, rb.delta), "recoveryCommitment": rb.recCommit}
		if rb.hasOrigin {
			sd["anchorOrigin"] = rb.origin
		}
		if rb.entityType != "" {
			sd["type"] = rb.entityType
		}
		rb.req = map[string]any{"type": "create", "suffixData": sd, "delta": rb.delta}
		return
	case ref.Update:
		rb.payload = map[string]any{"updateKey": rb.w.refJWK(rb.sign), "deltaHash": ref.ModelHash(rb.alg, rb.delta)}
	case ref.Recover:
		rb.payload = map[string]any{"recoveryKey": rb.w.refJWK(rb.sign), "deltaHash": ref.ModelHash(rb.alg, rb.delta),
			"recoveryCommitment": rb.recCommit}
		if rb.hasOrigin {
			rb.payload["anchorOrigin"] = rb.origin
		}
	case ref.Deactivate:
		rb.payload = map[string]any{"recoveryKey": rb.w.refJWK(rb.sign), "didSuffix": rb.suffix}
	}
	if rb.from != 0 {
		rb.payload["anchorFrom"] = intLiteral(rb.from)
	}
	if rb.until != 0 {
		rb.payload["anchorUntil"] = intLiteral(rb.until)
	}
	if rb.keyExtras {
		// the revealed key carries optional RFC 7517 parameters beside the members that are hashed (kty, crv, x, y, nonce)
		if j, isKey := rb.payload[rb.keyMember()].(map[string]any); isKey {
			j = ref.Clone(j).(map[string]any)
			j["kid"], j["use"], j["alg"], j["key_ops"] = "key-1", "sig", rb.w.Pool.Get(rb.sign.Idx).Type.Alg(), []any{"verify"}
			rb.payload[rb.keyMember()] = j
		}
	}
	for k, v := range rb.extra {
		if _, has := rb.payload[k]; has {
			continue
		}
		switch v {
		case "$reveal":
			v = rb.reveal
		case "$suffix":
			v = rb.suffix
		}
		rb.payload[k] = v
	}
	rb.req = map[string]any{"type": string(rb.kind), "didSuffix": rb.suffix, "revealValue": rb.reveal}
	if rb.delta != nil {
		rb.req["delta"] = rb.delta
	}
}

// intLiteral is the JSON number of i: a plain number where RFC 8785 can express it exactly, else the verbatim literal.
func intLiteral(i int64) any {
	if i > -(1<<53) && i < 1<<53 {
		return json.Number(itoa(i))
	}
	return ref.RawJSON(itoa(i))
}

func itoa(i int64) string {
	b, _ := json.Marshal(i)
	return string(b)
}

// finish signs the payload (after faults edited it) and assembles the request.
func (rb *rawBuild) finish() {
	if rb.kind == ref.Create || rb.req == nil {
		return
	}
	if rb.jwsOverride != "" {
		rb.req["signedData"] = rb.jwsOverride
	} else if _, dropped := rb.req["signedData"]; !dropped {
		k := rb.w.Pool.Get(rb.sign.Idx)
		if rb.signWith != nil {
			k = rb.signWith
		}
		jwsStr := rawJWS(rb.header, ref.JCS(rb.payload), k)
		if rb.mangleSig != nil {
			parts := strings.Split(jwsStr, ".")
			sig, _ := ref.UnB64(parts[2])
			parts[2] = ref.B64(rb.mangleSig(sig))
			jwsStr = strings.Join(parts, ".")
		}
		rb.req["signedData"] = jwsStr
	} else {
		delete(rb.req, "signedData")
	}
	if rb.deltaAfter != nil {
		rb.req["delta"] = rb.deltaAfter
	}
}

func (rb *rawBuild) bytes() []byte {
	if rb.raw != nil {
		return rb.raw
	}
	return ref.JCS(rb.req)
}

// rehashDelta recomputes the bound delta hash after the delta was edited by a key holder.
func (rb *rawBuild) rehashDelta() {
	h := ref.ModelHash(rb.alg, rb.delta)
	if rb.kind == ref.Create {
		rb.req["suffixData"].(map[string]any)["deltaHash"] = h
	} else {
		rb.payload["deltaHash"] = h
	}
}

// applyFault builds the request and injects exactly one labelled defect. arg selects the variant.
func (rb *rawBuild) applyFault(fault string, arg int, op *BuiltOp) {
	rb.build()
	w := rb.w
	variant := func(n int) int {
		if arg < 0 {
			arg = -arg
		}
		return arg % n
	}
	otherKey := func() *Key { return w.Pool.Get((rb.sign.Idx + 1 + variant(len(w.Pool.Keys)-1)) % len(w.Pool.Keys)) }
	otherAlg := func() uint {
		if rb.alg == ref.SHA256 {
			return ref.SHA512
		}
		return ref.SHA256
	}
	switch fault {
	case ref.FNone, ref.FWindowEarly, ref.FWindowLate, ref.FNotApplicable, ref.FTypeConfusion:
		// nothing to inject into the bytes: the numbers / patches / ledger stamp carry the condition
	case ref.FOwnTypeWrong:
		rb.req["type"] = []string{"create", "update", "recover", "deactivate", "bogus"}[variant(5)]
		if rb.req["type"] == string(rb.kind) {
			rb.req["type"] = "bogus"
		}
	case ref.FUnparsable:
		rb.finish()
		b := ref.JCS(rb.req)
		switch variant(3) {
		case 0:
			rb.raw = b[:len(b)/2]
		case 1:
			rb.raw = []byte("\x00\xff not json")
		default:
			rb.raw = append([]byte{}, b[1:]...)
		}
		return
	case ref.FMissingMember:
		if rb.kind == ref.Create {
			delete(rb.req, "suffixData")
		} else {
			switch variant(3) {
			case 0:
				delete(rb.req, "didSuffix")
			case 1:
				rb.req["signedData"] = nil // marks "drop" for finish
				rb.finish()
				delete(rb.req, "signedData")
				return
			default:
				delete(rb.req, "revealValue")
			}
		}
	case ref.FBadSuffixData:
		sd := rb.req["suffixData"].(map[string]any)
		switch variant(4) {
		case 0:
			sd["recoveryCommitment"] = "not-a-multihash"
		case 1:
			if oa := otherAlgUnconfigured(w, rb.alg); oa != 0 {
				sd["deltaHash"] = ref.ModelHash(oa, rb.delta)
			} else {
				sd["deltaHash"] = "not-a-multihash"
			}
		case 2:
			sd["recoveryCommitment"] = strings.Repeat("A", int(w.Plan.Swarm.MaxHashLen)+1)
		default:
			delete(sd, "recoveryCommitment")
		}
	case ref.FBadSignedData:
		switch variant(7) {
		case 0:
			rb.header["typ"] = "JWT"
		case 1:
			rb.header["alg"] = "none"
		case 2:
			rb.header["alg"] = "HS256"
		case 3: // two-part compact form
			rb.finish()
			parts := strings.Split(rb.req["signedData"].(string), ".")
			rb.req["signedData"] = parts[0] + "." + parts[1]
			return
		case 4: // nonce of the wrong size
			jwk := rb.payload[rb.keyMember()].(map[string]any)
			jwk["nonce"] = ref.B64(make([]byte, int(w.Plan.Swarm.NonceSize)+1))
			rb.req["revealValue"] = ref.Reveal(rb.alg, jwk)
		case 5: // key curve outside the allowed list: announce a curve name the configuration never lists
			jwk := rb.payload[rb.keyMember()].(map[string]any)
			jwk["crv"] = "P-999"
			rb.req["revealValue"] = ref.Reveal(rb.alg, jwk)
		default:
			rb.header["crit"] = []any{"b64"}
			rb.header["b64"] = false
		}
	case ref.FRevealMismatch:
		rb.req["revealValue"] = ref.Reveal(rb.alg, otherKey().RefJWK(""))
	case ref.FBadSignature:
		switch variant(3) {
		case 0:
			rb.signWith = otherKeySameType(w, rb.sign.Idx, variant(97))
		case 1:
			rb.mangleSig = func(sig []byte) []byte { sig[variant(len(sig))] ^= 1 << uint(variant(8)); return sig }
		default:
			rb.mangleSig = func(sig []byte) []byte { sig[len(sig)-1] ^= 0x80; return sig }
		}
	case ref.FSuffixMismatch:
		rb.payload["didSuffix"] = ref.HashBytes(rb.alg, []byte("another did"))
	case ref.FDeltaMissing:
		delete(rb.req, "delta")
	case ref.FDeltaHash:
		nd := ref.Clone(rb.delta).(map[string]any)
		switch variant(2) {
		case 0:
			nd["updateCommitment"] = ref.Commitment(rb.alg, otherKey().RefJWK(""))
		default:
			nd["patches"] = []any{map[string]any{"action": "add-also-known-as", "uris": []any{"did:evil:substituted"}}}
		}
		if ref.Equal(nd, rb.delta) {
			nd["patches"] = []any{map[string]any{"action": "add-also-known-as", "uris": []any{"did:evil:substituted", "did:evil:again"}}}
		}
		if rb.kind == ref.Create {
			rb.req["delta"] = nd
		} else {
			rb.deltaAfter = nd
		}
	case ref.FDeltaInvalid:
		v := variant(9)
		disabled := disabledAction(w)
		if v == 5 && disabled == "" {
			v = 0
		}
		switch v {
		case 5:
			rb.delta["patches"] = []any{validPatchOf(disabled)}
		case 0:
			delete(rb.delta, "patches")
		case 1:
			rb.delta["patches"] = []any{map[string]any{"action": "no-such-action", "value": "x"}}
		case 2:
			rb.delta["patches"] = []any{map[string]any{"action": "remove-public-keys", "ids": []any{}}}
		case 3:
			rb.delta["updateCommitment"] = "not-a-multihash"
		case 6, 7, 8:
			// also-known-as URIs listed twice in one patch: byte-identical, or different strings that denote the same URI
			// (scheme case, empty fragment); the v1 validator compares the parsed and re-serialised form
			pair := [][]any{{"https://example.com/a", "https://example.com/a"}, {"https://example.com/a", "HTTPS://example.com/a"}, {"urn:x:1", "https://example.com/a", "https://example.com/a#"}}[v-6]
			rb.delta["patches"] = []any{map[string]any{"action": core.Pick(core.NewRNG(uint64(arg)), []string{"add-also-known-as", "remove-also-known-as"}), "uris": pair}}
		default:
			big := strings.Repeat("x", int(w.Plan.Swarm.MaxDeltaSize)+1)
			rb.delta["patches"] = []any{map[string]any{"action": "add-also-known-as", "uris": []any{"did:big:" + big}}}
		}
		rb.rehashDelta()
	case ref.FBadNextRecovery:
		switch variant(2) {
		case 0:
			rb.payload["recoveryCommitment"] = "not-a-multihash"
		default: // re-using the revealed key as the next commitment
			rb.payload["recoveryCommitment"] = ref.Commitment(rb.alg, rb.w.refJWK(rb.sign)) // (the hashed members only: optional JWK parameters are not part of a commitment)
		}
	default:
		panic("unknown fault class " + fault)
	}
	_ = otherAlg
	rb.finish()
}

func (rb *rawBuild) keyMember() string {
	if rb.kind == ref.Update {
		return "updateKey"
	}
	return "recoveryKey"
}

// otherAlgUnconfigured returns a supported hash code that is not in the configured list if there is one,
// else an unsupported code's look-alike (SHA-512 when only SHA-256 is configured and vice versa).
func otherAlgUnconfigured(w *World, alg uint) uint {
	for _, c := range []uint{ref.SHA256, ref.SHA512} {
		found := false
		for _, h := range w.Plan.Swarm.HashAlgs {
			if h == c {
				found = true
			}
		}
		if !found {
			return c
		}
	}
	return 0
}

func otherKeySameType(w *World, idx, salt int) *Key {
	t := w.Pool.Get(idx).Type
	cands := w.Pool.ByType[t]
	for i := 0; i < len(cands); i++ {
		c := cands[(salt+i)%len(cands)]
		if c != idx {
			return w.Pool.Get(c)
		}
	}
	return w.Pool.Get(idx)
}

var allActions = []string{"replace", "add-public-keys", "remove-public-keys", "add-services", "remove-services",
	"add-also-known-as", "remove-also-known-as", "ietf-json-patch"}

func disabledAction(w *World) string {
	for _, a := range allActions {
		on := false
		for _, e := range w.Plan.Swarm.Patches {
			if e == a {
				on = true
			}
		}
		if !on {
			return a
		}
	}
	return ""
}

// validPatchOf returns a small patch of the given action that passes patch validation.
func validPatchOf(action string) map[string]any {
	switch action {
	case "replace":
		return map[string]any{"action": action, "document": map[string]any{"services": []any{
			map[string]any{"id": "s", "type": "t", "serviceEndpoint": "https://example.com/"}}}}
	case "add-public-keys":
		return map[string]any{"action": action, "publicKeys": []any{map[string]any{"id": "k", "type": "JsonWebKey2020",
			"publicKeyJwk": map[string]any{"kty": "OKP", "crv": "Ed25519", "x": "AAAA"}}}}
	case "remove-public-keys", "remove-services":
		return map[string]any{"action": action, "ids": []any{"k"}}
	case "add-services":
		return map[string]any{"action": action, "services": []any{
			map[string]any{"id": "s", "type": "t", "serviceEndpoint": "https://example.com/"}}}
	case "add-also-known-as", "remove-also-known-as":
		return map[string]any{"action": action, "uris": []any{"https://example.com/aka"}}
	default:
		return map[string]any{"action": "ietf-json-patch", "patches": []any{map[string]any{"op": "add", "path": "/note", "value": "x"}}}
	}
}
