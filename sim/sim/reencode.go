package sim

import (
	"bytes"
	"encoding/json"
	"fmt"
	"sort"
	"strconv"
	"strings"

	"verif/sim/core"
)

// reencode serialises a generic JSON value in a surface spelling chosen by the rng: member order, whitespace,
// escape style (\uXXXX for ASCII, \/), number spelling. The result denotes the same JSON value.
func reencode(r *core.RNG, v any) []byte {
	var b bytes.Buffer
	writeStyled(&b, r, v, 0)
	return b.Bytes()
}

func ws(r *core.RNG) string {
	switch r.Intn(5) {
	case 0:
		return " "
	case 1:
		return "\n\t"
	case 2:
		return "  \r\n"
	}
	return ""
}

func writeStyled(b *bytes.Buffer, r *core.RNG, v any, depth int) {
	switch x := v.(type) {
	case nil:
		b.WriteString("null")
	case bool:
		if x {
			b.WriteString("true")
		} else {
			b.WriteString("false")
		}
	case string:
		writeStyledString(b, r, x)
	case json.Number:
		b.WriteString(styledNumber(r, string(x)))
	case []any:
		b.WriteString("[" + ws(r))
		for i, e := range x {
			if i > 0 {
				b.WriteString(ws(r) + "," + ws(r))
			}
			writeStyled(b, r, e, depth+1)
		}
		b.WriteString(ws(r) + "]")
	case map[string]any:
		keys := make([]string, 0, len(x))
		for k := range x {
			keys = append(keys, k)
		}
		sort.Strings(keys)
		switch r.Intn(3) {
		case 0:
			for i, j := 0, len(keys)-1; i < j; i, j = i+1, j-1 {
				keys[i], keys[j] = keys[j], keys[i]
			}
		case 1:
			core.Shuffle(r, keys)
		}
		b.WriteString("{" + ws(r))
		for i, k := range keys {
			if i > 0 {
				b.WriteString(ws(r) + "," + ws(r))
			}
			writeStyledString(b, r, k)
			b.WriteString(ws(r) + ":" + ws(r))
			writeStyled(b, r, x[k], depth+1)
		}
		b.WriteString(ws(r) + "}")
	default:
		panic(fmt.Sprintf("reencode: unsupported %T", v))
	}
}

func writeStyledString(b *bytes.Buffer, r *core.RNG, s string) {
	b.WriteByte('"')
	for _, c := range s {
		switch {
		case c == '"':
			b.WriteString(`\"`)
		case c == '\\':
			b.WriteString(`\\`)
		case c == '/' && r.Chance(1, 2):
			b.WriteString(`\/`)
		case c < 0x20:
			fmt.Fprintf(b, `\u%04X`, c)
		case c < 0x7f && r.Chance(1, 10):
			if r.Chance(1, 2) {
				fmt.Fprintf(b, `\u%04x`, c)
			} else {
				fmt.Fprintf(b, `\u%04X`, c)
			}
		case c > 0xffff && r.Chance(1, 2):
			c -= 0x10000
			fmt.Fprintf(b, `\u%04x\u%04x`, 0xd800+(c>>10), 0xdc00+(c&0x3ff))
		case c >= 0x80 && c <= 0xffff && r.Chance(1, 3):
			fmt.Fprintf(b, `\u%04x`, c)
		default:
			b.WriteRune(c)
		}
	}
	b.WriteByte('"')
}

// styledNumber re-spells an integer / decimal literal without changing its value.
func styledNumber(r *core.RNG, n string) string {
	if strings.ContainsAny(n, "eE") {
		return n
	}
	if i, err := strconv.ParseInt(n, 10, 64); err == nil && i > -1000000 && i < 1000000 {
		switch r.Intn(5) {
		case 0:
			return n + ".0"
		case 1:
			return n + "e0"
		case 2:
			return n + "E+0"
		case 3:
			if i != 0 {
				return n + "0e-1"
			}
		}
	}
	return n
}
