package sim

import (
	"fmt"

	"github.com/trustbloc/sidetree-go/pkg/commitment"

	"verif/sim/core"
	"verif/sim/ref"
)

// execKeyAlgebra is the C04(a) oracle for one key use: reveal value, commitment and commitment-from-reveal agree
// with the reference (independent JWK construction, RFC 8785, multihash), and commitments of keys that differ
// in any member are pairwise different over the run.
func (w *World) execKeyAlgebra(st *Step) {
	idx := toInt(st.Args["key"]) % len(w.Pool.Keys)
	key := w.Pool.Get(idx)
	// the same key material is published without nonce and with two different nonces: members other than the key
	// material (the nonce only) must change the commitment, in whatever order the variants are evaluated
	nonces := []string{"", w.nonceFor(w.step, "algebra-a", true), w.nonceFor(w.step, "algebra-b", true)}
	if b, _ := st.Args["nonce"].(bool); b {
		nonces[0], nonces[1] = nonces[1], nonces[0]
	}
	for _, nonce := range nonces {
		w.keyAlgebraOne(idx, key, nonce)
	}
}

func (w *World) keyAlgebraOne(idx int, key *Key, nonce string) {
	refJWK := key.RefJWK(nonce)
	lib, err := libJWK(key, nonce)
	if err != nil {
		w.violate("C04/jwk", key.Type.String(), "GetPublicKeyJWK failed: %v", err)
		return
	}
	for _, alg := range []uint{ref.SHA256, ref.SHA512} {
		w.T.Count("key_algebra_checked", 1)
		w.T.Mark(fmt.Sprintf("alg:%s:%v:%d:%v", key.Type, nonce != "", alg, key.Tags))
		wit := fmt.Sprintf("%s:%d", key.Type, alg)
		rv, err := commitment.GetRevealValue(lib, alg)
		if err != nil || rv != ref.Reveal(alg, refJWK) {
			w.violate("C04/reveal-value", wit, "key %d: GetRevealValue=%q err=%v, reference %q", idx, rv, err, ref.Reveal(alg, refJWK))
		}
		c, err := commitment.GetCommitment(lib, alg)
		if err != nil || c != ref.Commitment(alg, refJWK) {
			w.violate("C04/commitment", wit, "key %d nonce %q: GetCommitment=%q err=%v, reference %q", idx, nonce, c, err, ref.Commitment(alg, refJWK))
		}
		cr, err := commitment.GetCommitmentFromRevealValue(rv)
		if err != nil || cr != c {
			w.violate("C04/commitment-from-reveal", wit, "key %d nonce %q: GetCommitmentFromRevealValue(reveal)=%q err=%v, commitment %q", idx, nonce, cr, err, c)
		}
		if c == rv {
			w.violate("C04/commitment-equals-reveal", wit, "commitment equals reveal value")
		}
		desc := fmt.Sprintf("%d/%s/%d", idx, nonce, alg)
		if prev, ok := w.commitSeen[c]; ok && prev != desc {
			w.violate("C04/commitment-collision", wit, "keys %s and %s have the same commitment", prev, desc)
		}
		w.commitSeen[c] = desc
	}
	// unsupported algorithm codes are refused
	if _, err := commitment.GetCommitment(lib, 0x16); err == nil {
		w.violate("C04/unsupported-code", "", "GetCommitment accepted multihash code 0x16")
	}
}

// GenChain generates C04 plans: key-algebra steps over the pool plus well-formed chains in chain mode, reordered
// and duplicated by the network and interleaved with look-alike operations signed by keys that were never committed.
func GenChain(seed uint64, pool *Pool) *Plan {
	r := core.NewRNG(seed).Stream("gen/C04")
	p := &Plan{Property: "C04", Profile: "chain", Seed: seed, CryptoSeed: core.NewRNG(seed).Stream("crypto").Uint64()}
	p.Swarm = GenSwarm(r.Stream("swarm"), pool)
	s := &p.Swarm
	s.Patches = append([]string{}, allActions...)
	s.ChainMode = true
	s.NetDropPct, s.NetDupPct, s.NetMaxDelay = r.Intn(10), r.Intn(20), r.Intn(int(s.BlockInterval)*2)
	for n := r.Range(4, 10); n > 0; n-- {
		p.Steps = append(p.Steps, Step{Op: SCall, Name: "keyalgebra", Args: map[string]any{"key": r.Intn(len(pool.Keys)), "nonce": r.Chance(1, 2)}})
	}
	nd := r.Range(1, 2)
	for i := 0; i < nd; i++ {
		d := &genDID{wallet: 0, did: i}
		kinds := []ref.OpKind{ref.Create}
		for n := r.Range(1, 12); n > 0; n-- {
			if r.Chance(1, 4) {
				kinds = append(kinds, ref.Recover)
			} else {
				kinds = append(kinds, ref.Update)
			}
		}
		if r.Chance(1, 2) {
			kinds = append(kinds, ref.Deactivate)
		}
		for _, k := range kinds {
			fault := ref.FNone
			if k == ref.Recover && r.Chance(1, 4) {
				// a recover whose delta alone is bad is still a link of the recovery chain: it is accepted with an empty document and
				// its signed recovery commitment is what the next recover / deactivate must reveal
				fault = core.Pick(r, []string{ref.FDeltaMissing, ref.FDeltaHash, ref.FDeltaInvalid})
			}
			st := opStep(r, pool, s, d, k, fault, true)
			st.Via = "direct"
			st.HasFrom, st.HasUntil = false, false
			if r.Chance(1, 5) {
				st.Dup = 1
			}
			p.Steps = append(p.Steps, st)
			if k != ref.Create && r.Chance(1, 3) {
				// a look-alike: same DID, valid signature, but by a key nobody committed to
				h := opStep(r, pool, s, d, core.Pick(r, []ref.OpKind{ref.Update, ref.Recover, ref.Deactivate}), ref.FNone, true)
				h.Via, h.SignKey = "direct", 1+pickSigningKey(r, pool, s)
				h.HasFrom, h.HasUntil = false, false
				p.Steps = append(p.Steps, h)
			}
			if r.Chance(1, 6) {
				p.Steps = append(p.Steps, replayStep(r, d))
			}
			if r.Chance(2, 3) {
				p.Steps = append(p.Steps, Step{Op: STick, Secs: s.BlockInterval + 1})
			}
		}
	}
	return p
}

func init() {
	register(&Property{
		ID: "C04", Level: "exploration", EvalCounter: "chain_links_checked",
		Rule: "(a) per key use (five types x leading-zero coordinates x nonce / no nonce x SHA-256 / SHA-512): reveal value, commitment and commitment-from-reveal vs the " +
			"reference, pairwise-different commitments over the run; (b) seeded well-formed chains create -> (update|recover)* -> deactivate of 2-14 operations in chain mode, " +
			"duplicated / reordered by the network and interleaved with validly signed look-alikes by uncommitted keys and byte-identical replays: the processor's filter built " +
			"only from GetRevealValue / GetCommitmentFromRevealValue must let exactly the committed chain through, and along the accepted chain reveal(op_i) maps to the " +
			"commitment the parser reports for its predecessor. distinct_nontrivial = distinct chain histories + distinct (key type, tags, nonce, algorithm) tuples",
		Cases: func(master uint64, tier string) []Case {
			n := 4000
			if tier == "thorough" {
				n = 250000
			}
			return seqCases(master, n, nil)
		},
		Gen:            func(c Case, pool *Pool) *Plan { return GenChain(c.Seed, pool) },
		RequiredProbes: map[string][]string{"quick": {"chain_filtered", "key_algebra_checked", "chain_degraded_recover_link"}, "thorough": {"chain_filtered", "key_algebra_checked", "replayed_operation", "chain_degraded_recover_link"}},
		Components:     worldComponents,
		Assumptions:    worldAssumptions,
	})
}
