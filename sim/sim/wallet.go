package sim

import (
	"encoding/json"
	"fmt"
	"os"
	"strings"

	"github.com/trustbloc/sidetree-go/pkg/jws"
	"github.com/trustbloc/sidetree-go/pkg/patch"
	"github.com/trustbloc/sidetree-go/pkg/util/ecsigner"
	"github.com/trustbloc/sidetree-go/pkg/util/edsigner"
	"github.com/trustbloc/sidetree-go/pkg/util/pubkey"
	"github.com/trustbloc/sidetree-go/pkg/versions/1_0/client"

	"verif/sim/core"
	"verif/sim/ref"
)

// keyUse is a pool key plus the nonce it is published with.
type keyUse struct {
	Idx   int
	Nonce string
	Set   bool
	Alg   uint // hash algorithm of the commitment made to this key (0: the operation's own algorithm)
}

type didTruth struct {
	ops      []*BuiltOp
	Created  bool
	Suffix   string
	Upd, Rec keyUse
	Alg      uint
}

// BuiltOp is an authored operation with its ground truth.
type BuiltOp struct {
	ID      int
	Step    int
	Wallet  int
	DID     int
	Truth   ref.Truth
	Bytes   []byte
	Honest  bool // valid by construction: must be admitted and fully applied where it fits
	SignKey keyUse
	NextUpd keyUse
	NextRec keyUse
	// RevealCommit is the reference commitment of the key whose reveal value the request presents.
	RevealCommit string
	RevealValue  string
	Builder      string
	Alg          uint
}

// Wallet is a DID controller: owns key chains and the intended document of each DID.
type Wallet struct {
	w    *World
	id   int
	name string
	dids map[int]*didTruth
}

func newWallet(w *World, id int) *Wallet {
	return &Wallet{w: w, id: id, name: fmt.Sprintf("wallet%d", id), dids: map[int]*didTruth{}}
}

func (wl *Wallet) did(i int) *didTruth {
	d, ok := wl.dids[i]
	if !ok {
		d = &didTruth{}
		wl.dids[i] = d
	}
	return d
}

func (w *World) firstAlg() uint { return w.Plan.Swarm.HashAlgs[0] }

// nonceFor derives the nonce of a key use from (seed, step, role): independent of every other draw.
func (w *World) nonceFor(step int, role string, want bool) string {
	if !want {
		return ""
	}
	r := core.NewRNG(w.Plan.Seed).Stream(fmt.Sprintf("nonce/%d/%s", step, role))
	return ref.B64(r.Bytes(int(w.Plan.Swarm.NonceSize)))
}

// resolvePatches replaces {"$key": idx} placeholders by JWK objects.
func (w *World) resolvePatches(v any) any {
	switch x := v.(type) {
	case map[string]any:
		if k, ok := x["$key"]; ok {
			idx := toInt(k)
			key := w.Pool.Get(idx % len(w.Pool.Keys))
			jwk := docJWK(key)
			for name, extra := range x { // further members of the JWK object (any JSON type) ride along
				if name != "$key" {
					jwk[name] = extra
				}
			}
			return jwk
		}
		out := make(map[string]any, len(x))
		for k, e := range x {
			out[k] = w.resolvePatches(e)
		}
		return out
	case []any:
		out := make([]any, len(x))
		for i, e := range x {
			out[i] = w.resolvePatches(e)
		}
		return out
	}
	return v
}

func toInt(v any) int {
	switch x := v.(type) {
	case json.Number:
		i, _ := x.Int64()
		return int(i)
	case float64:
		return int(x)
	case int:
		return x
	case int64:
		return int(x)
	}
	return 0
}

// docJWK is the JWK of a key as it appears inside documents (no empty members).
func docJWK(k *Key) map[string]any {
	m := map[string]any{"kty": k.Type.Kty(), "crv": k.Type.Crv(), "x": ref.B64(k.X)}
	if k.Type != Ed25519 {
		m["y"] = ref.B64(k.Y)
	}
	return m
}

func (w *World) refJWK(u keyUse) map[string]any { return w.Pool.Get(u.Idx).RefJWK(u.Nonce) }

// rawJWS builds a compact JWS with the crypto primitives directly. header is marshalled the way the
// verifier re-marshals it (Go JSON, sorted member names).
func rawJWS(header map[string]any, payload []byte, k *Key) string {
	hb, err := json.Marshal(header)
	if err != nil {
		panic(err)
	}
	input := ref.B64(hb) + "." + ref.B64(payload)
	sig := k.SignRaw([]byte(input))
	return input + "." + ref.B64(sig)
}

// libSigner returns the library signer for a pool key.
func libSigner(k *Key, alg, kid string) client.Signer {
	if k.Type == Ed25519 {
		return edsigner.New(k.Ed, alg, kid)
	}
	return ecsigner.New(k.EC, alg, kid)
}

// libJWK converts a pool key through the library's public-key-to-JWK path.
func libJWK(k *Key, nonce string) (*jws.JWK, error) {
	j, err := pubkey.GetPublicKeyJWK(k.Public())
	if err != nil {
		return nil, err
	}
	j.Nonce = nonce
	return j, nil
}

func toPatches(ps []any) ([]patch.Patch, error) {
	var out []patch.Patch
	for _, p := range ps {
		lp, err := patch.FromBytes(ref.JCS(p))
		if err != nil {
			return nil, err
		}
		out = append(out, lp)
	}
	return out, nil
}

// Submit authors the operation described by the step and sends it on its way.
func (wl *Wallet) Submit(stepIdx int, st *Step) {
	w := wl.w
	var op *BuiltOp
	if st.Replay > 0 {
		d := wl.did(st.DID)
		if len(d.ops) == 0 {
			w.T.Event("replay step without an earlier operation: skipped")
			return
		}
		orig := d.ops[(len(d.ops)-1)-((st.Replay-1)%len(d.ops))]
		cp := *orig
		cp.Step = stepIdx
		op = &cp
		w.T.Fault("replayed_operation")
	} else {
		op = wl.build(stepIdx, st)
		if op == nil {
			return
		}
		d := wl.did(st.DID)
		d.ops = append(d.ops, op)
	}
	op.ID = len(w.Model.Ops)
	w.Model.Ops = append(w.Model.Ops, op)
	w.T.Event("submit op%d w%d did%d %s fault=%q builder=%s via=%s len=%d", op.ID, wl.id, st.DID, st.Kind, st.Fault, op.Builder, st.Via, len(op.Bytes))
	w.T.Count("ops_authored", 1)
	w.T.Probe("keytype_" + w.Pool.Get(op.SignKey.Idx).Type.String())
	w.send(op, st)
}

func (w *World) send(op *BuiltOp, st *Step) {
	if st.Drop {
		w.T.Fault("net_drop")
		return
	}
	deliver := func() {
		switch st.Via {
		case "direct":
			w.Ledger.SubmitDirect(op)
		case "both": // the endpoint is asked first (its verdict is not awaited), the bytes are anchored by another node anyway
			w.Intake.dry = true
			w.Intake.Receive(op)
			w.Intake.dry = false
			w.Ledger.SubmitDirect(op)
		default:
			w.Intake.Receive(op)
		}
	}
	w.After(int64(st.Delay), deliver)
	if st.Delay > 0 {
		w.T.Fault("net_delay")
	}
	for i := 0; i < st.Dup; i++ {
		w.T.Fault("net_dup")
		w.After(int64(st.Delay+1+i), deliver)
	}
	if st.RespLost {
		// the request was processed but the reply was lost: the client retries the same bytes once
		w.T.Fault("net_resp_lost_retry")
		w.After(int64(st.Delay+2), deliver)
	}
}

func (wl *Wallet) build(stepIdx int, st *Step) *BuiltOp {
	w := wl.w
	d := wl.did(st.DID)
	kind := ref.OpKind(st.Kind)
	alg := st.HashAlg
	if alg == 0 {
		alg = w.firstAlg()
	}
	op := &BuiltOp{Step: stepIdx, Wallet: wl.id, DID: st.DID, Builder: st.Builder, Alg: alg}
	if op.Builder == "" {
		op.Builder = "raw"
	}
	viaClient := (st.Builder == "client" || st.Builder == "clientfn") && st.Fault == ref.FNone
	// the Sidetree client derives next commitments from bare public keys: no nonce
	nextUpd := keyUse{Idx: st.NextUpd % len(w.Pool.Keys), Nonce: w.nonceFor(stepIdx, "upd", st.NonceUpd && !viaClient), Set: true}
	nextRec := keyUse{Idx: st.NextRec % len(w.Pool.Keys), Nonce: w.nonceFor(stepIdx, "rec", st.NonceRec && !viaClient), Set: true}
	op.NextUpd, op.NextRec = nextUpd, nextRec

	var sign keyUse
	switch kind {
	case ref.Update:
		sign = d.Upd
	case ref.Recover, ref.Deactivate:
		sign = d.Rec
	}
	if st.SignKey > 0 {
		sign = keyUse{Idx: (st.SignKey - 1) % len(w.Pool.Keys), Set: true}
	}
	if kind != ref.Create && !sign.Set {
		// the wallet holds no key for this DID (it was never created here): sign with an arbitrary own key
		cands := w.Pool.ByType[w.Plan.Swarm.allowedTypes()[0]]
		sign = keyUse{Idx: cands[(st.DID*7+wl.id*3)%len(cands)], Set: true}
	}
	op.SignKey = sign
	// an honest controller never re-uses a key: next keys differ from each other and from the revealed key
	same := func(a, b keyUse) bool { return a.Idx == b.Idx && a.Nonce == b.Nonce }
	clash := func(k keyUse, others ...keyUse) bool {
		for _, o := range others {
			if o.Set && same(k, o) {
				return true
			}
		}
		return false
	}
	for salt := 0; clash(nextUpd, sign) && salt < 50; salt++ {
		nextUpd.Idx = otherKeySameType(w, nextUpd.Idx, salt).Idx
	}
	for salt := 0; clash(nextRec, sign, nextUpd) && salt < 50; salt++ {
		nextRec.Idx = otherKeySameType(w, nextRec.Idx, salt).Idx
	}
	if st.NextUpdIsRevealed && kind == ref.Recover && st.Fault == ref.FNone && st.SignKey == 0 && d.Rec.Set && !viaClient {
		// what the rules forbid is the revealed recovery key as next RECOVERY key, and equal next commitments; committing to the
		// revealed recovery key as next UPDATE key is allowed (same key, same nonce: the two chains cross)
		nextUpd = sign
		nextUpd.Alg = 0
		op.Builder = "raw"
		w.T.Probe("revealed_recovery_key_as_next_update_key")
	}
	op.NextUpd, op.NextRec = nextUpd, nextRec

	suffix := d.Suffix
	if suffix == "" && kind != ref.Create {
		suffix = ref.HashBytes(w.firstAlg(), []byte(fmt.Sprintf("never-created/%d/%d", wl.id, st.DID)))
	}

	rawPatches := st.Patches
	var content *clientContent
	if op.Builder == "client" || op.Builder == "clientfn" {
		c, ordered, ok := splitForClient(rawPatches, kind)
		if kind == ref.Deactivate {
			ok = true
		}
		if !ok || st.Fault != ref.FNone {
			op.Builder = "lib"
		} else {
			content, rawPatches = c, ordered
		}
	}
	clientBuilt := content != nil || ((op.Builder == "client" || op.Builder == "clientfn") && kind == ref.Deactivate)
	patches, _ := w.resolvePatches(anyList(rawPatches)).([]any)
	var from, until int64
	if st.HasFrom {
		from = st.From
		if !st.Abs {
			from += w.Now(wl.name)
		}
	}
	if st.HasUntil {
		until = st.Until
		if !st.Abs {
			until += w.Now(wl.name)
		}
	}
	var origin any
	hasOrigin := st.HasOrigin
	if hasOrigin {
		origin = st.Origin
	}
	entityType := st.EntityType
	if clientBuilt {
		// the Sidetree client has no option for windows or entity type, and takes the anchor origin as a string
		from, until, entityType = 0, 0, ""
		if _, isStr := origin.(string); !isStr {
			origin, hasOrigin = nil, false
		}
	}

	tr := &op.Truth
	tr.Kind = kind
	tr.AnchoredKind = kind
	tr.Fault = st.Fault
	tr.Patches = patches
	tr.From, tr.Until = from, until
	tr.AnchorOrigin = origin
	if kind == ref.Create || kind == ref.Recover {
		tr.RecCommit = ref.Commitment(alg, w.refJWK(nextRec))
	}
	if kind != ref.Deactivate {
		tr.UpdCommit = ref.Commitment(alg, w.refJWK(nextUpd))
	}
	// the reveal value opens an existing commitment, so it uses the algorithm that commitment was made with, which
	// need not be the algorithm of this operation's own next commitments (algorithm migration inside a chain)
	revealAlg := alg
	if sign.Alg != 0 {
		revealAlg = sign.Alg
	}
	if kind != ref.Create {
		op.RevealValue = ref.Reveal(revealAlg, w.refJWK(sign))
		op.RevealCommit = ref.Commitment(revealAlg, w.refJWK(sign))
	}
	nextUpd.Alg, nextRec.Alg = alg, alg
	op.NextUpd, op.NextRec = nextUpd, nextRec

	// ---- a delta padded to the configured size limit (boundary of "valid"): exactly at, one below, one above
	if st.PadDelta > 0 && kind != ref.Deactivate && st.Fault == ref.FNone && !clientBuilt && !st.Opaque && w.Plan.Swarm.enabled("add-also-known-as") {
		specials := []string{"", "\u2028", "\u2029\u2028", "<>&", "\u00e9\u00a0", "\U0001F600"}[((st.PadKind%6)+6)%6]
		mk := func(n int) []any {
			uri := "did:pad:" + specials + strings.Repeat("x", n)
			return append(append([]any{}, patches...), map[string]any{"action": "add-also-known-as", "uris": []any{uri}})
		}
		size := func(ps []any) int {
			return len(ref.JCS(map[string]any{"updateCommitment": tr.UpdCommit, "patches": ps}))
		}
		target := int(w.Plan.Swarm.MaxDeltaSize) + map[int]int{1: 0, 2: -1, 3: 1}[st.PadDelta]
		if need := target - size(mk(0)); need >= 0 {
			patches = mk(need)
			tr.Patches = patches
			w.T.Probe(fmt.Sprintf("delta_padded_to_limit%+d", target-int(w.Plan.Swarm.MaxDeltaSize)))
			if st.PadDelta == 3 {
				tr.Fault = ref.FDeltaInvalid // one byte over the limit: the delta is invalid by size alone
			}
		}
	}

	// ---- honest request as generic JSON (the raw builder's output, also the base for fault injection)
	rb := &rawBuild{w: w, kind: kind, alg: alg, suffix: suffix, patches: patches, updCommit: tr.UpdCommit,
		recCommit: tr.RecCommit, origin: origin, hasOrigin: hasOrigin, entityType: entityType,
		from: from, until: until, sign: sign, kid: st.Kid, reveal: op.RevealValue, extra: st.SignedExtra, keyExtras: st.KeyExtras}
	if sign.Set {
		rb.header = map[string]any{"alg": w.Pool.Get(sign.Idx).Type.Alg()}
		if st.Kid != "" {
			rb.header["kid"] = st.Kid
		}
	}

	switch {
	case clientBuilt:
		b, err := wl.buildWithClient(st, rb, nextUpd, nextRec, content, op.Builder == "client")
		if err != nil {
			w.violate("C08/client-refused", string(kind), "sidetree.Client failed on a valid %s: %v", kind, err)
			return nil
		}
		op.Bytes = b
		rb.build() // the reference request
		if kind == ref.Create {
			// the DID is whatever the client's own request hashes to
			if got, perr := ref.Parse(b); perr == nil {
				if gm, ok := got.(map[string]any); ok {
					if !ref.Equal(gm, rb.req) && os.Getenv("STSIM_DEBUG") != "" {
						fmt.Fprintf(os.Stderr, "client create differs:\n got  %s\n want %s\n", ref.JCS(gm), ref.JCS(rb.req))
					}
					rb.req = gm
				}
			}
		}
	case st.Fault == ref.FNone && op.Builder == "lib":
		b, err := wl.buildWithLibrary(st, rb, nextUpd, nextRec)
		if err != nil {
			w.violate("C08/builder-refused", string(kind), "library builder refused a valid %s request: %v", kind, err)
			return nil
		}
		op.Bytes = b
	default:
		op.Builder = "raw"
		rb.applyFault(st.Fault, st.FaultArg, op)
		op.Bytes = rb.bytes()
	}
	if st.Respace && st.Fault == ref.FNone && st.Via == "direct" {
		// the same request with insignificant whitespace and another member order: everything that is hashed is hashed in canonical
		// form, so this is the same operation (only the intake's request size limit counts bytes, hence direct submissions only)
		if pv, perr := ref.Parse(op.Bytes); perr == nil {
			op.Bytes = reencode(core.NewRNG(w.Plan.Seed).Stream(fmt.Sprintf("respace/%d", stepIdx)), pv)
			w.T.Probe("request_with_insignificant_whitespace")
		}
	}
	if st.AnchoredKind != "" && st.Fault == ref.FTypeConfusion {
		tr.AnchoredKind = ref.OpKind(st.AnchoredKind)
	}

	// the DID this request names
	if kind == ref.Create {
		if rb.req == nil {
			// built by the library: the DID is whatever the request it produced hashes to (reference hash)
			if got, perr := ref.Parse(op.Bytes); perr == nil {
				rb.req, _ = got.(map[string]any)
			}
		}
		sd, _ := rb.req["suffixData"].(map[string]any)
		if sd != nil {
			tr.Suffix = ref.ModelHash(w.firstAlg(), sd)
		} else {
			tr.Suffix = ref.HashBytes(w.firstAlg(), []byte(fmt.Sprintf("no-suffix-data/%d/%d/%d", wl.id, st.DID, stepIdx)))
		}
	} else {
		tr.Suffix = suffix
	}
	op.Honest = tr.Fault == ref.FNone

	// ---- the wallet's own bookkeeping (its view of which keys are committed); a look-alike signed with an
	// explicitly chosen key is somebody else's operation and changes nothing here
	effect := faultEffect(kind, tr.Fault)
	if st.SignKey > 0 {
		effect = "none"
	}
	switch effect {
	case "full":
		switch kind {
		case ref.Create:
			if !d.Created {
				d.Created, d.Suffix, d.Alg = true, tr.Suffix, alg
				d.Upd, d.Rec = nextUpd, nextRec
			}
		case ref.Update:
			d.Upd = nextUpd
		case ref.Recover:
			d.Upd, d.Rec = nextUpd, nextRec
		}
	case "recovery-only":
		if kind == ref.Create && !d.Created {
			d.Created, d.Suffix, d.Alg = true, tr.Suffix, alg
			d.Rec = nextRec
			d.Upd = keyUse{}
		} else if kind == ref.Recover {
			d.Rec = nextRec
			d.Upd = keyUse{}
		}
	}
	return op
}

// faultEffect tells how far an operation of this class advances commitments when accepted.
func faultEffect(kind ref.OpKind, fault string) string {
	switch fault {
	case ref.FNone, ref.FOwnTypeWrong, ref.FWindowEarly, ref.FWindowLate, ref.FNotApplicable:
		return "full"
	case ref.FDeltaMissing, ref.FDeltaHash, ref.FDeltaInvalid:
		if kind == ref.Create || kind == ref.Recover {
			return "recovery-only"
		}
	}
	return "none"
}

func anyList(l []any) any {
	if l == nil {
		return []any{}
	}
	return l
}

func (wl *Wallet) buildWithLibrary(st *Step, rb *rawBuild, nextUpd, nextRec keyUse) ([]byte, error) {
	w := wl.w
	lps, err := toPatches(rb.patches)
	if err != nil {
		return nil, fmt.Errorf("patch.FromBytes: %w", err)
	}
	switch rb.kind {
	case ref.Create:
		info := &client.CreateRequestInfo{Patches: lps, RecoveryCommitment: rb.recCommit, UpdateCommitment: rb.updCommit,
			MultihashCode: rb.alg, Type: rb.entityType}
		if rb.hasOrigin {
			info.AnchorOrigin = rb.origin
		}
		if st.Opaque {
			docm, cerr := ref.Compose(map[string]any{}, rb.patches)
			if cerr != nil {
				return nil, cerr
			}
			info.Patches = nil
			info.OpaqueDocument = string(ref.JCS(ref.NormDoc(docm)))
		}
		return client.NewCreateRequest(info)
	}
	key := w.Pool.Get(rb.sign.Idx)
	jwk, err := libJWK(key, rb.sign.Nonce)
	if err != nil {
		return nil, err
	}
	signer := libSigner(key, key.Type.Alg(), rb.kid)
	switch rb.kind {
	case ref.Update:
		return client.NewUpdateRequest(&client.UpdateRequestInfo{DidSuffix: rb.suffix, Patches: lps, UpdateCommitment: rb.updCommit,
			UpdateKey: jwk, MultihashCode: rb.alg, Signer: signer, RevealValue: rb.reveal, AnchorFrom: rb.from, AnchorUntil: rb.until})
	case ref.Recover:
		info := &client.RecoverRequestInfo{DidSuffix: rb.suffix, RecoveryKey: jwk, Patches: lps, RecoveryCommitment: rb.recCommit,
			UpdateCommitment: rb.updCommit, AnchorFrom: rb.from, AnchorUntil: rb.until, MultihashCode: rb.alg, Signer: signer, RevealValue: rb.reveal}
		if rb.hasOrigin {
			info.AnchorOrigin = rb.origin
		}
		if st.Opaque {
			docm, cerr := ref.Compose(map[string]any{}, rb.patches)
			if cerr != nil {
				return nil, cerr
			}
			info.Patches = nil
			info.OpaqueDocument = string(ref.JCS(ref.NormDoc(docm)))
		}
		return client.NewRecoverRequest(info)
	case ref.Deactivate:
		return client.NewDeactivateRequest(&client.DeactivateRequestInfo{DidSuffix: rb.suffix, RecoveryKey: jwk, Signer: signer,
			RevealValue: rb.reveal, AnchorFrom: rb.from, AnchorUntil: rb.until})
	}
	return nil, fmt.Errorf("kind %q", rb.kind)
}
