package sim

import (
	"math"
	"encoding/json"
	"fmt"
	"strings"

	"github.com/trustbloc/sidetree-go/pkg/api/operation"
	"github.com/trustbloc/sidetree-go/pkg/api/protocol"
	"github.com/trustbloc/sidetree-go/pkg/commitment"

	"verif/sim/core"
	"verif/sim/ref"
)

type netFaults struct{ DropPct, DupPct, MaxDelay int }

func (p *Plan) NetFaults() netFaults {
	return netFaults{p.Swarm.NetDropPct, p.Swarm.NetDupPct, p.Swarm.NetMaxDelay}
}

// histEntry is one retained version of a DID's state (C12: earlier versions stay valid).
type histEntry struct {
	rm       *protocol.ResolutionModel
	snapshot string
	recID    int // op id that produced it (-1 initial)
}

// fold is an observer's per-DID resolution state.
type fold struct {
	suffix             string
	rm                 *protocol.ResolutionModel
	hist               []*histEntry
	fed                int  // number of ledger records of this suffix consumed
	stopped            bool // an accepted deactivate ends the history (quantifier of C01)
	arrival            []*operation.AnchoredOperation
	initPub, initUnpub []*operation.AnchoredOperation
}

// Observer is the stub operation store + processor around the real applier.
type Observer struct {
	w           *World
	id          int
	name        string
	disk        *SimDisk
	up          bool
	partitioned bool

	next     int                 // next block height to process
	pending  map[int]bool        // delivered out of order, waiting
	folds    map[string]*fold    // volatile
	order    []string            // suffixes in first-seen order (never range over the map)
	preCrash map[string][]string // snapshots retained across a crash for the re-fold oracle
	syncLag  int64
}

func newObserver(w *World, id int) *Observer {
	o := &Observer{w: w, id: id, name: fmt.Sprintf("observer%d", id), up: true}
	o.disk = &SimDisk{t: w.T, checksum: w.Plan.Swarm.DiskChecksum}
	o.pending = map[int]bool{}
	o.folds = map[string]*fold{}
	o.syncLag = int64(id % 3) // observers differ in how long a write stays volatile
	return o
}

// Deliver is a block announcement arriving over the simulated network.
func (o *Observer) Deliver(height int) {
	w := o.w
	if !o.up || o.partitioned {
		w.T.Probe("deliver_to_down_node")
		return
	}
	if height < o.next {
		w.T.Probe("duplicate_block_ignored")
		return
	}
	if height > o.next {
		if !o.pending[height] {
			w.T.Probe("block_out_of_order")
		}
		o.pending[height] = true
		o.requestMissing()
		return
	}
	o.process(height)
	for o.pending[o.next] {
		delete(o.pending, o.next)
		o.process(o.next)
	}
}

// requestMissing re-fetches the next expected block from the ledger if it exists.
func (o *Observer) requestMissing() {
	w := o.w
	if !o.up || o.partitioned {
		return
	}
	if o.next < len(w.Ledger.Blocks) {
		h := o.next
		w.T.Probe("refetch")
		w.After(1, func() {
			if o.up && !o.partitioned && o.next == h {
				w.Ledger.broadcast(o, h, 1)
			}
		})
	}
}

func (o *Observer) process(height int) {
	w := o.w
	block := w.Ledger.Blocks[height]
	o.disk.Append(encodeBlock(height, block))
	if o.syncLag == 0 {
		o.disk.Sync()
	} else {
		w.After(o.syncLag, func() {
			if o.up {
				o.disk.Sync()
			}
		})
	}
	w.T.Event("%s process block %d", o.name, height)
	for _, rec := range block {
		o.feed(rec.Op, rec.Built.ID, false)
	}
	o.next = height + 1
}

func (o *Observer) foldFor(suffix string) *fold {
	f, ok := o.folds[suffix]
	if !ok {
		f = &fold{suffix: suffix}
		// pre-filled operation lists: the applier must carry them unchanged
		n := len(suffix) % 3
		for i := 0; i < n; i++ {
			f.initPub = append(f.initPub, &operation.AnchoredOperation{Type: operation.TypeCreate, UniqueSuffix: suffix,
				CanonicalReference: fmt.Sprintf("pre%d", i), TransactionTime: uint64(i)})
		}
		if len(suffix)%2 == 0 {
			f.initUnpub = append(f.initUnpub, &operation.AnchoredOperation{Type: operation.TypeUpdate, UniqueSuffix: suffix})
		}
		f.rm = &protocol.ResolutionModel{PublishedOperations: f.initPub, UnpublishedOperations: f.initUnpub}
		f.hist = append(f.hist, &histEntry{rm: f.rm, snapshot: snapshotRM(f.rm), recID: -1})
		o.folds[suffix] = f
		o.order = append(o.order, suffix)
	}
	return f
}

// feed folds one anchored operation (raw mode: every operation; chain mode: only those whose reveal value
// matches the current commitment) and runs the per-step oracles.
func (o *Observer) feed(op *operation.AnchoredOperation, opID int, refold bool) {
	w := o.w
	f := o.foldFor(op.UniqueSuffix)
	pos := f.fed
	f.fed++
	f.arrival = append(f.arrival, op)
	if f.stopped {
		w.T.Probe("op_after_deactivate_skipped")
		return
	}
	exp := w.Model.Expect(op.UniqueSuffix, pos)
	if exp == nil {
		w.violate("SIM/model-missing", "", "no model entry for %s #%d", op.UniqueSuffix, pos)
		return
	}
	if w.Plan.Swarm.ChainMode {
		eligible := o.eligible(op, f.rm)
		if w.CheckChain && eligible != exp.Eligible {
			w.violate("C04/chain-filter", string(exp.Rec.Built.Truth.Kind)+":"+faultName(exp.Rec.Built.Truth.Fault),
				"%s: commitment/reveal matching let through=%v, expected %v for op%d (%s %s)", o.name, eligible, exp.Eligible, opID,
				exp.Rec.Built.Truth.Kind, exp.Rec.Built.Truth.Fault)
		}
		if !eligible {
			w.T.Probe("chain_filtered")
			return
		}
		if !exp.Eligible {
			return // already reported; do not pile follow-up mismatches on top
		}
	}

	prev := f.rm
	if re := core.NewRNG(w.Plan.Seed).Stream(fmt.Sprintf("envelope/%d", opID)); !refold && re.Chance(1, 4) {
		// the envelope of an anchored operation repeats things the request itself says (suffix, anchor origin); whoever filled it
		// in may have left them empty or got them from elsewhere - the outcome is a function of the request, the anchoring
		// time / number / version / references and the previous state
		env := *op
		env.EquivalentReferences = append([]string(nil), op.EquivalentReferences...)
		switch re.Intn(4) {
		case 0:
			env.UniqueSuffix = ""
		case 1:
			env.AnchorOrigin = "origin-from-envelope"
		case 2:
			env.AnchorOrigin = nil
		default:
			env.UniqueSuffix, env.AnchorOrigin = "", []interface{}{"envelope"}
		}
		op = &env
		w.T.Probe("envelope_fields_varied")
	}
	var before, opBefore string
	if w.CheckInputs {
		before = snapshotRM(prev)
		opBefore = snapshotOp(op)
	}
	next, err := w.Applier.Apply(op, prev)
	w.T.Count("apply_calls", 1)
	w.T.Event("%s apply op%d %s -> err=%v", o.name, opID, op.Type, err != nil)

	if w.CheckInputs {
		w.T.Count("input_snapshots_compared", 1)
		if after := snapshotRM(prev); after != before {
			w.violate("C12/apply-mutated-previous-state", string(op.Type), "Apply(%s) changed its previous state: %s", op.Type, diffHint(before, after))
		}
		if after := snapshotOp(op); after != opBefore {
			w.violate("C12/apply-mutated-operation", string(op.Type), "Apply(%s) changed the anchored operation", op.Type)
		}
		if err != nil && next != nil {
			w.violate("C12/error-with-state", string(op.Type), "Apply(%s) returned an error and a state", op.Type)
		}
	}

	if w.CheckFold && !refold {
		o.compare(exp, next, err, f)
	}
	if tr := &exp.Rec.Built.Truth; w.Plan.Swarm.FarFuture && w.CheckFold && !refold && !w.Plan.Swarm.ChainMode && op.Type != operation.TypeCreate && exp.Prev != nil &&
		(tr.From != 0 || tr.Until != 0) {
		// the same operation, same previous state, anchored at times at and beyond the end of the int64 range (the anchoring time is
		// an unsigned 64-bit number): the window verdict is a comparison of integers, not of their int64 casts
		for _, at := range []uint64{1<<63 - 1, 1 << 63, 1<<63 + exp.Rec.Meta.Time, math.MaxUint64} {
			env := *op
			env.TransactionTime = at
			meta := exp.Rec.Meta
			meta.Time = at
			want, verdict, why := ref.Step(w.RefCfg, exp.Prev, tr, &meta)
			got, gerr := w.Applier.Apply(&env, prev)
			w.T.Count("window_points_checked", 1)
			w.T.Probe("window_anchoring_time_beyond_int64")
			o.compare(&Expectation{Rec: exp.Rec, Verdict: verdict, Why: fmt.Sprintf("%s, anchored at t=%d", why, at), State: want, Tag: "far-future"}, got, gerr, f)
		}
	}
	if n := w.Plan.Swarm.Soak; n > 0 && !refold && op.Type != operation.TypeCreate {
		// soak: the same operation against the same previous state through the same applier, over and over - the outcome is a
		// function of (operation, state, anchoring data) alone, whatever the component has been through before
		first := "error"
		if err == nil {
			first = snapshotRM(next)
		}
		for i := 0; i < n; i++ {
			again, aerr := w.Applier.Apply(op, prev)
			got := "error"
			if aerr == nil {
				got = snapshotRM(again)
			}
			if got != first {
				w.violate(w.Prop+"/outcome-depends-on-history-of-component", string(op.Type), "%s: application #%d of op%d (%s) to the same state by the same applier gives %s, the first gave %s",
					o.name, i+2, opID, op.Type, diffHint(first, got), clip([]byte(first)))
				break
			}
		}
		w.T.Count("soak_applications", uint64(n))
		w.T.Probe("soak")
	}
	if w.CheckIntake && !refold && exp.Rec.Via == "intake" && exp.Rec.Built.Honest {
		// the anchored (canonical) bytes and the original request bytes apply to the same state
		orig := *op
		orig.OperationRequest = exp.Rec.Built.Bytes
		next2, err2 := w.Applier.Apply(&orig, prev)
		w.T.Count("original_vs_anchored_compared", 1)
		if (err == nil) != (err2 == nil) || (err == nil && snapshotRM(next) != snapshotRM(next2)) {
			w.violate("C08/original-vs-anchored", string(op.Type), "%s: original and anchored bytes of op%d fold differently (err %v vs %v)", o.name, opID, err2, err)
		}
	}
	if err != nil {
		return
	}
	if next == nil {
		w.violate(w.Prop+"/nil-state", string(op.Type), "Apply returned (nil, nil)")
		return
	}
	f.rm = next
	f.hist = append(f.hist, &histEntry{rm: next, snapshot: snapshotRM(next), recID: opID})
	if next.Deactivated {
		f.stopped = true
	}
}

func faultName(f string) string {
	if f == "" {
		return "valid"
	}
	return f
}

// eligible is what a real operation processor does with nothing but the library's functions.
func (o *Observer) eligible(op *operation.AnchoredOperation, rm *protocol.ResolutionModel) bool {
	if op.Type == operation.TypeCreate {
		return rm.Doc == nil
	}
	if rm.Doc == nil {
		return false
	}
	rv, err := o.w.Parser.GetRevealValue(op.OperationRequest)
	if err != nil {
		return false
	}
	c, err := commitment.GetCommitmentFromRevealValue(rv)
	if err != nil {
		return false
	}
	switch op.Type {
	case operation.TypeUpdate:
		return rm.UpdateCommitment != "" && c == rm.UpdateCommitment
	default:
		return rm.RecoveryCommitment != "" && c == rm.RecoveryCommitment
	}
}

// compare is the C01 oracle: verdict and all 15 fields.
func (o *Observer) compare(exp *Expectation, got *protocol.ResolutionModel, err error, f *fold) {
	w := o.w
	tr := &exp.Rec.Built.Truth
	wit := fmt.Sprintf("%s:%s:%s", tr.AnchoredKind, faultName(tr.Fault), exp.Verdict)
	if exp.Tag != "" {
		wit += ":" + exp.Tag
	}
	w.T.Count("fold_steps_checked", 1)
	if exp.Verdict == ref.Refused {
		if err == nil {
			w.violate(w.Prop+"/verdict", wit, "%s: op%d (%s, %s) must be refused (%s) but was applied", o.name, exp.Rec.Built.ID, tr.AnchoredKind, faultName(tr.Fault), exp.Why)
		}
		return
	}
	if err != nil {
		w.violate(w.Prop+"/verdict", wit, "%s: op%d (%s, %s) must be accepted as %s but was refused: %v", o.name, exp.Rec.Built.ID, tr.AnchoredKind, faultName(tr.Fault), exp.Verdict, err)
		return
	}
	if got == nil {
		return
	}
	ctx := fmt.Sprintf("%s: op%d (%s, %s, %s %s)", o.name, exp.Rec.Built.ID, tr.AnchoredKind, faultName(tr.Fault), exp.Verdict, exp.Why)
	o.compareFields(w.Prop+"/field/", wit, ctx, exp.State, got, f)
}

// compareFields compares all 15 fields of a resolution model with a reference state.
func (o *Observer) compareFields(oracle, wit, ctx string, m *ref.State, got *protocol.ResolutionModel, f *fold) {
	w := o.w
	bad := func(field, format string, a ...any) {
		w.violate(oracle+field, wit, "%s: %s", ctx, fmt.Sprintf(format, a...))
	}
	if got.Doc == nil {
		bad("Doc", "document is nil")
	} else if !ref.DocEqual(ref.Norm(map[string]any(got.Doc)).(map[string]any), m.Doc) {
		bad("Doc", "document %s, want %s", clip(ref.JCS(ref.Norm(map[string]any(got.Doc)))), clip(ref.JCS(m.Doc)))
	}
	num := func(field string, g, e uint64) {
		if g != e {
			bad(field, "%d, want %d", g, e)
		}
	}
	num("CreatedTime", got.CreatedTime, m.Created)
	num("UpdatedTime", got.UpdatedTime, m.Updated)
	num("LastOperationTransactionTime", got.LastOperationTransactionTime, m.LastTime)
	num("LastOperationTransactionNumber", got.LastOperationTransactionNumber, m.LastNumber)
	num("LastOperationProtocolVersion", got.LastOperationProtocolVersion, m.LastVersion)
	str := func(field, g, e string) {
		if g != e {
			bad(field, "%q, want %q", g, e)
		}
	}
	str("UpdateCommitment", got.UpdateCommitment, m.UpdCommit)
	str("RecoveryCommitment", got.RecoveryCommitment, m.RecCommit)
	str("CanonicalReference", got.CanonicalReference, m.Canonical)
	str("VersionID", got.VersionID, m.VersionID)
	if got.Deactivated != m.Deactivated {
		bad("Deactivated", "%v, want %v", got.Deactivated, m.Deactivated)
	}
	if !ref.Equal(normAny(got.AnchorOrigin), m.AnchorOrigin) {
		bad("AnchorOrigin", "%v, want %v", got.AnchorOrigin, m.AnchorOrigin)
	}
	if strings.Join(got.EquivalentReferences, "|") != strings.Join(m.Equivalent, "|") || len(got.EquivalentReferences) != len(m.Equivalent) {
		bad("EquivalentReferences", "%v, want %v", got.EquivalentReferences, m.Equivalent)
	}
	if !sameOps(got.PublishedOperations, f.initPub) {
		bad("PublishedOperations", "list not carried unchanged")
	}
	if !sameOps(got.UnpublishedOperations, f.initUnpub) {
		bad("UnpublishedOperations", "list not carried unchanged")
	}
}

func sameOps(a, b []*operation.AnchoredOperation) bool {
	if len(a) != len(b) {
		return false
	}
	for i := range a {
		if a[i] != b[i] {
			return false
		}
	}
	return true
}

func snapshotRM(rm *protocol.ResolutionModel) string {
	if rm == nil {
		return "<nil>"
	}
	b, err := json.Marshal(rm)
	if err != nil {
		return "marshal-error:" + err.Error()
	}
	docNil := "doc-present"
	if rm.Doc == nil {
		docNil = "doc-nil"
	}
	return docNil + string(b)
}

func snapshotOp(op *operation.AnchoredOperation) string {
	b, _ := json.Marshal(op)
	return string(b)
}

func diffHint(a, b string) string {
	i := 0
	for i < len(a) && i < len(b) && a[i] == b[i] {
		i++
	}
	lo := i - 40
	if lo < 0 {
		lo = 0
	}
	end := func(s string) int {
		if i+60 < len(s) {
			return i + 60
		}
		return len(s)
	}
	return fmt.Sprintf("before ...%s... after ...%s...", a[lo:end(a)], b[lo:end(b)])
}

// Crash loses all volatile state; only the durable part of the disk survives.
func (o *Observer) Crash() {
	if !o.up {
		return
	}
	w := o.w
	w.T.Fault("node_crash")
	w.T.Event("%s crash at block %d", o.name, o.next)
	o.preCrash = map[string][]string{}
	for _, s := range o.order {
		var snaps []string
		for _, h := range o.folds[s].hist {
			snaps = append(snaps, h.snapshot)
		}
		o.preCrash[s] = snaps
	}
	o.up = false
	o.disk.Crash()
	o.folds = map[string]*fold{}
	o.order = nil
	o.pending = map[int]bool{}
	o.next = 0
}

// Restart re-reads the durable log, drops a damaged tail and anything after a gap, re-folds, and asks the
// ledger for what is missing.
func (o *Observer) Restart() {
	if o.up {
		return
	}
	w := o.w
	w.T.Event("%s restart", o.name)
	payloads, bad := o.disk.ReadAll()
	if bad {
		w.T.Probe("torn_tail_dropped")
	}
	keep := 0
	for _, p := range payloads {
		sb, err := decodeBlock(p)
		if err != nil || sb.Height != keep {
			w.T.Probe("log_gap_or_garbage_truncated")
			break
		}
		keep++
	}
	o.disk.Truncate(keep)
	o.up = true
	o.next = 0
	for i := 0; i < keep; i++ {
		sb, _ := decodeBlock(payloads[i])
		for _, so := range sb.Ops {
			o.feed(so.Op, so.OpID, true)
		}
		o.next = i + 1
	}
	w.T.Probe("restart_refold")
	// re-fold oracle: for the durable prefix the states are value-identical to the pre-crash ones
	for _, s := range o.order {
		pre := o.preCrash[s]
		for i, h := range o.folds[s].hist {
			if i < len(pre) {
				w.T.Count("refold_states_compared", 1)
				if pre[i] != h.snapshot {
					w.violate(w.Prop+"/refold", "", "%s: state %d of %s differs after restart: %s", o.name, i, s, diffHint(pre[i], h.snapshot))
				}
			}
		}
	}
	o.requestMissing()
}

// finalChecks: bounded liveness (the observer caught up with the ledger and equals the model) and the
// end-of-run re-verification of every retained earlier version (C12).
func (o *Observer) finalChecks() {
	w := o.w
	if o.next != len(w.Ledger.Blocks) {
		w.violate("SIM/liveness", "", "%s processed %d of %d blocks within the settle budget", o.name, o.next, len(w.Ledger.Blocks))
	}
	for _, s := range o.order {
		f := o.folds[s]
		if w.CheckInputs {
			for i, h := range f.hist {
				w.T.Count("retained_versions_reverified", 1)
				if now := snapshotRM(h.rm); now != h.snapshot {
					w.violate("C12/earlier-version-changed", "", "%s: version %d of %s was modified by a later call: %s", o.name, i, s, diffHint(h.snapshot, now))
				}
			}
		}
		if w.CheckFold {
			if final := w.Model.Final(s); final != nil && o.next == len(w.Ledger.Blocks) {
				w.T.Count("final_states_compared", 1)
				if !final.Exists {
					if f.rm.Doc != nil {
						w.violate(w.Prop+"/final/Doc", "", "%s: %s has a document but the model has none", o.name, s)
					}
				} else {
					// eventual agreement (also after crash, restart and re-fold): the observer equals the model
					o.compareFields(w.Prop+"/final/", "", fmt.Sprintf("%s: final state of %s", o.name, s), final, f.rm, f)
				}
			}
		}
	}
}

// Resolve answers a resolution request (C18 oracle lives in resolve.go).
func (o *Observer) Resolve(st *Step) {
	if !o.up {
		return
	}
	o.resolve(st)
}
