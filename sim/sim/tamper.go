package sim

import (
	"encoding/json"
	"fmt"
	"strings"

	"github.com/trustbloc/sidetree-go/pkg/api/operation"

	"verif/sim/core"
	"verif/sim/ref"
)

// tamper is one entry of the adversary's catalogue (C02): a party holding no private key alters an otherwise
// valid operation. expect is "R" (refused, previous state untouched) or "D0" (documented degradation of a recover
// whose delta alone is bad: accepted, empty document, no update commitment, the signed recovery commitment).
type tamper struct {
	label  string
	bytes  []byte
	expect string
	asType string // anchored under this operation type instead of the original one (cross-type replay)
	// prime, when set, is applied first (anchored as primeType, outcome ignored) on the same applier: the tamper itself must be
	// refused whatever the applier has seen before
	prime     []byte
	primeType string
}

func splitJWS(s string) (h, p, sig []byte, ok bool) {
	parts := strings.Split(s, ".")
	if len(parts) != 3 {
		return nil, nil, nil, false
	}
	var err error
	if h, err = ref.UnB64(parts[0]); err != nil {
		return nil, nil, nil, false
	}
	if p, err = ref.UnB64(parts[1]); err != nil {
		return nil, nil, nil, false
	}
	if sig, err = ref.UnB64(parts[2]); err != nil {
		return nil, nil, nil, false
	}
	return h, p, sig, true
}

func joinJWS(h, p, sig []byte) string { return ref.B64(h) + "." + ref.B64(p) + "." + ref.B64(sig) }

// tamperCatalogue enumerates every labelled tamper of a valid update / recover / deactivate request.
func (w *World) tamperCatalogue(req map[string]any, kind ref.OpKind, alg uint, signIdx int, attacker *Key) []tamper {
	var out []tamper
	jwsStr, _ := req["signedData"].(string)
	h, p, sig, ok := splitJWS(jwsStr)
	if !ok {
		return nil
	}
	with := func(mod func(r map[string]any)) []byte {
		r := ref.Clone(req).(map[string]any)
		mod(r)
		return ref.JCS(r)
	}
	withJWS := func(s string) []byte { return with(func(r map[string]any) { r["signedData"] = s }) }
	add := func(label string, b []byte) { out = append(out, tamper{label: label, bytes: b, expect: "R"}) }

	// (a) every bit of the decoded signature
	for i := 0; i < len(sig)*8; i++ {
		s2 := append([]byte{}, sig...)
		s2[i/8] ^= 1 << uint(i%8)
		add(fmt.Sprintf("signature-bit/%d", i), withJWS(joinJWS(h, p, s2)))
	}
	add("signature-truncated", withJWS(joinJWS(h, p, sig[:len(sig)-1])))
	add("signature-extended", withJWS(joinJWS(h, p, append(append([]byte{}, sig...), 0))))
	add("signature-zero", withJWS(joinJWS(h, p, make([]byte, len(sig)))))

	// (b) signed-payload fields re-encoded without re-signing
	payload, err := ref.Parse(p)
	pm, _ := payload.(map[string]any)
	if err == nil && pm != nil {
		keyMember := "recoveryKey"
		if kind == ref.Update {
			keyMember = "updateKey"
		}
		editPayload := func(label string, mod func(m map[string]any)) {
			m := ref.Clone(pm).(map[string]any)
			mod(m)
			if ref.Equal(m, pm) {
				return
			}
			add("payload/"+label, withJWS(joinJWS(h, ref.JCS(m), sig)))
		}
		otherHash := ref.HashBytes(alg, []byte("some other delta"))
		if _, has := pm["deltaHash"]; has {
			editPayload("deltaHash", func(m map[string]any) { m["deltaHash"] = otherHash })
		}
		if _, has := pm["recoveryCommitment"]; has {
			editPayload("recoveryCommitment", func(m map[string]any) { m["recoveryCommitment"] = ref.Commitment(alg, attacker.RefJWK("")) })
		}
		editPayload("anchorOrigin", func(m map[string]any) { m["anchorOrigin"] = "https://evil.example" })
		editPayload("anchorFrom", func(m map[string]any) { m["anchorFrom"] = json.Number("1") })
		editPayload("anchorUntil", func(m map[string]any) { m["anchorUntil"] = json.Number("99999999999") })
		if _, has := pm["didSuffix"]; has {
			editPayload("didSuffix", func(m map[string]any) { m["didSuffix"] = ref.HashBytes(alg, []byte("another did")) })
		}
		if jwk, ok := pm[keyMember].(map[string]any); ok {
			for _, member := range core.SortedKeys(jwk) {
				member := member
				editPayload("jwk."+member, func(m map[string]any) {
					j := m[keyMember].(map[string]any)
					if s, isStr := j[member].(string); isStr && len(s) > 2 {
						b := []byte(s)
						if b[1] == 'A' {
							b[1] = 'B'
						} else {
							b[1] = 'A'
						}
						j[member] = string(b)
					} else {
						j[member] = "x"
					}
				})
			}
			editPayload("jwk.nonce-added", func(m map[string]any) {
				m[keyMember].(map[string]any)["nonce"] = ref.B64(make([]byte, int(w.Plan.Swarm.NonceSize)))
			})
			// (c) key substitution without re-signing, with and without the matching reveal value
			editPayload("key-substituted", func(m map[string]any) { m[keyMember] = attacker.RefJWK("") })
			m2 := ref.Clone(pm).(map[string]any)
			m2[keyMember] = attacker.RefJWK("")
			add("key-substituted+reveal", with(func(r map[string]any) {
				r["signedData"] = joinJWS(h, ref.JCS(m2), sig)
				r["revealValue"] = ref.Reveal(alg, attacker.RefJWK(""))
			}))
			// (d) key substitution with re-signing by the attacker, original reveal value
			hdr := map[string]any{"alg": attacker.Type.Alg()}
			add("key-substituted+resigned", withJWS(rawJWS(hdr, ref.JCS(m2), attacker)))
			// the attacker re-signs with its own key and mirrors request-level fields INSIDE the signed payload (members
			// the signed-data models also declare or might prefer): the request keeps the victim's reveal value
			for _, extra := range []struct {
				label string
				mod   func(m map[string]any)
			}{
				{"signed-reveal-of-attacker", func(m map[string]any) { m["revealValue"] = ref.Reveal(alg, attacker.RefJWK("")) }},
				{"signed-reveal-of-victim", func(m map[string]any) { m["revealValue"] = req["revealValue"] }},
				{"signed-did-suffix", func(m map[string]any) { m["didSuffix"] = req["didSuffix"] }},
				{"signed-type", func(m map[string]any) { m["type"] = string(kind) }},
				{"signed-delta", func(m map[string]any) { m["delta"] = req["delta"] }},
			} {
				m3 := ref.Clone(m2).(map[string]any)
				extra.mod(m3)
				add("key-substituted+resigned+"+extra.label, withJWS(rawJWS(hdr, ref.JCS(m3), attacker)))
			}
			// re-signed by the attacker but the embedded key left in place
			add("resigned-by-other-key", withJWS(rawJWS(map[string]any{"alg": w.Pool.Get(signIdx).Type.Alg()}, p, otherKeySameType(w, signIdx, 1))))
		}
	}
	// (d') one signed payload in two roles: the attacker signs, with its own key, a payload that names its key as update key AND
	// the victim's key as recovery key; presented as an update it is genuinely valid (and is applied once, to whatever state);
	// presented afterwards as this recover / deactivate it is not signed by the recovery key it carries
	if kind != ref.Update && pm != nil {
		if _, hasRec := pm["recoveryKey"]; hasRec {
			two := ref.Clone(pm).(map[string]any)
			two["updateKey"] = attacker.RefJWK("")
			if _, has := two["recoveryCommitment"]; has {
				two["recoveryCommitment"] = ref.Commitment(alg, attacker.RefJWK(""))
			}
			delta, _ := req["delta"].(map[string]any)
			if delta == nil {
				delta = map[string]any{"updateCommitment": ref.Commitment(alg, attacker.RefJWK("n")), "patches": []any{map[string]any{"action": "add-also-known-as", "uris": []any{"did:evil:primed"}}}}
				two["deltaHash"] = ref.ModelHash(alg, delta)
			}
			j := rawJWS(map[string]any{"alg": attacker.Type.Alg()}, ref.JCS(two), attacker)
			prime := ref.JCS(map[string]any{"type": "update", "didSuffix": req["didSuffix"], "revealValue": ref.Reveal(alg, attacker.RefJWK("")), "delta": delta, "signedData": j})
			out = append(out, tamper{label: "two-role-payload-applied-as-update-first", bytes: withJWS(j), expect: "R", prime: prime, primeType: "update"})
		}
	}
	// (e) reveal value substitution alone
	add("reveal-substituted", with(func(r map[string]any) { r["revealValue"] = ref.Reveal(alg, attacker.RefJWK("")) }))
	// the right key's hash, shortened or lengthened, re-encoded as a well-formed multihash (code, length, digest all agree)
	if rv, isStr := req["revealValue"].(string); isStr {
		if code, digest, derr := ref.DecodeMultihash(rv); derr == nil && len(digest) > 2 {
			for _, l := range []int{0, 1, len(digest) / 2, len(digest) - 1} {
				l := l
				add(fmt.Sprintf("reveal-digest-truncated-%d", l), with(func(r map[string]any) {
					r["revealValue"] = ref.B64(ref.MultihashBytes(code, digest[:l]))
				}))
			}
			add("reveal-digest-extended", with(func(r map[string]any) {
				r["revealValue"] = ref.B64(ref.MultihashBytes(code, append(append([]byte{}, digest...), 0)))
			}))
		}
	}
	add("reveal-other-algorithm", with(func(r map[string]any) {
		oa := uint(ref.SHA512)
		if alg == ref.SHA512 {
			oa = ref.SHA256
		}
		if pmKey := pm; pmKey != nil {
			for _, km := range []string{"updateKey", "recoveryKey"} {
				if j, ok := pmKey[km]; ok {
					r["revealValue"] = ref.HashBytes(oa, []byte(ref.JCS(j))[:1])
				}
			}
		}
	}))

	// (e') cross-type replay: the signed data of this operation presented as an operation of another type (request and anchored
	// type relabelled), with the request's DID suffix kept, removed or emptied. Nobody signed an operation of that type.
	// (signed data that carries everything another operation type signs IS that type's signed data, genuinely signed by the key
	// holder - the members an operation type does not use may be present as extras: not a forgery, so not in this catalogue)
	signs := func(members ...string) bool {
		for _, m := range members {
			if _, has := pm[m]; !has {
				return false
			}
		}
		return true
	}
	completeFor := map[ref.OpKind]bool{
		ref.Update:     signs("updateKey", "deltaHash"),
		ref.Recover:    signs("recoveryKey", "deltaHash", "recoveryCommitment"),
		ref.Deactivate: signs("recoveryKey", "didSuffix"),
	}
	for _, other := range []ref.OpKind{ref.Update, ref.Recover, ref.Deactivate} {
		if other == kind || completeFor[other] {
			continue
		}
		for _, sfx := range []string{"kept", "removed", "empty"} {
			sfx, other := sfx, other
			b := with(func(r map[string]any) {
				r["type"] = string(other)
				switch sfx {
				case "removed":
					delete(r, "didSuffix")
				case "empty":
					r["didSuffix"] = ""
				}
				if other == ref.Deactivate {
					delete(r, "delta")
				}
			})
			out = append(out, tamper{label: fmt.Sprintf("replayed-as-%s/suffix-%s", other, sfx), bytes: b, expect: "R", asType: string(other)})
		}
	}

	// (f) delta substitution (the signed delta hash is left alone)
	if d, ok := req["delta"].(map[string]any); ok {
		exp := "R"
		if kind == ref.Recover {
			exp = "D0"
		}
		subst := func(label string, mod func(m map[string]any)) {
			nd := ref.Clone(d).(map[string]any)
			mod(nd)
			if ref.Equal(nd, d) {
				return
			}
			out = append(out, tamper{label: "delta/" + label, bytes: with(func(r map[string]any) { r["delta"] = nd }), expect: exp})
		}
		subst("updateCommitment", func(m map[string]any) { m["updateCommitment"] = ref.Commitment(alg, attacker.RefJWK("")) })
		subst("patches", func(m map[string]any) {
			m["patches"] = []any{map[string]any{"action": "add-also-known-as", "uris": []any{"did:evil:substituted"}}}
		})
		subst("patch-appended", func(m map[string]any) {
			m["patches"] = append(append([]any{}, listOf(m["patches"])...), map[string]any{"action": "add-also-known-as", "uris": []any{"did:evil:extra"}})
		})
		out = append(out, tamper{label: "delta/removed", bytes: with(func(r map[string]any) { delete(r, "delta") }), expect: exp})
	}

	// (g) protected header
	hdr, herr := ref.Parse(h)
	hm, _ := hdr.(map[string]any)
	if herr == nil && hm != nil {
		editHeader := func(label string, mod func(m map[string]any)) {
			m := ref.Clone(hm).(map[string]any)
			mod(m)
			b, _ := json.Marshal(m)
			add("header/"+label, withJWS(joinJWS(b, p, sig)))
		}
		editHeader("typ", func(m map[string]any) { m["typ"] = "JWT" })
		editHeader("crit", func(m map[string]any) { m["crit"] = []any{"exp"} })
		editHeader("b64-false", func(m map[string]any) { m["b64"] = false })
		editHeader("jwk", func(m map[string]any) { m["jwk"] = attacker.RefJWK("") })
		for _, a := range []string{"EdDSA", "ES256", "ES384", "ES512", "ES256K", "HS256", "RS256", "none", ""} {
			a := a
			if a == hm["alg"] {
				continue
			}
			editHeader("alg="+a, func(m map[string]any) { m["alg"] = a })
		}
		editHeader("alg-number", func(m map[string]any) { m["alg"] = json.Number("5") })
		editHeader("alg-removed", func(m map[string]any) { delete(m, "alg") })
		editHeader("kid-altered", func(m map[string]any) { m["kid"] = "attacker-key" })
		add("header/not-json", withJWS(joinJWS([]byte("{alg"), p, sig)))
		// the key holder signs over a header the rules do not allow: an algorithm name that is not literally an allowed one (white
		// space around it, another letter case), members other than alg / kid. The signature is genuine; the operation is still refused.
		if alg, isStr := hm["alg"].(string); isStr && alg != "" {
			holder := w.Pool.Get(signIdx)
			resigned := func(label string, mod func(m map[string]any)) {
				m := ref.Clone(hm).(map[string]any)
				mod(m)
				add("header-resigned/"+label, withJWS(rawJWS(m, p, holder)))
			}
			for i, v := range []string{" " + alg, alg + " ", "\t" + alg, alg + "\n", alg + "\u00a0", "\u2003" + alg, strings.ToLower(alg), alg + "\x00"} {
				v := v
				if v == alg {
					continue
				}
				resigned(fmt.Sprintf("alg-variant-%d", i), func(m map[string]any) { m["alg"] = v })
			}
			resigned("typ", func(m map[string]any) { m["typ"] = "JWT" })
			resigned("b64-true", func(m map[string]any) { m["b64"] = true })
			resigned("crit", func(m map[string]any) { m["crit"] = []any{"alg"} })
			resigned("cty", func(m map[string]any) { m["cty"] = "json" })
		}
	}

	// (h) compact form
	parts := strings.Split(jwsStr, ".")
	add("compact/0-segments", withJWS(""))
	add("compact/1-segment", withJWS(parts[0]))
	add("compact/2-segments", withJWS(parts[0]+"."+parts[1]))
	add("compact/4-segments", withJWS(jwsStr+"."+parts[2]))
	add("compact/empty-header", withJWS("."+parts[1]+"."+parts[2]))
	add("compact/empty-payload", withJWS(parts[0]+".."+parts[2]))
	add("compact/empty-signature", withJWS(parts[0]+"."+parts[1]+"."))
	add("compact/payload-truncated", withJWS(parts[0]+"."+parts[1][:len(parts[1])-2]+"."+parts[2]))
	add("compact/payload-padded", withJWS(parts[0]+"."+parts[1]+"=."+parts[2]))
	add("compact/signature-padded", withJWS(parts[0]+"."+parts[1]+"."+parts[2]+"="))
	add("compact/non-alphabet", withJWS(parts[0]+"."+parts[1]+"."+"*"+parts[2][1:]))
	add("compact/std-alphabet", withJWS(parts[0]+"."+parts[1]+"."+"+/"+parts[2][2:]))
	add("compact/json-serialization", withJWS("{\"payload\":\""+parts[1]+"\"}"))
	add("signed-data-removed", with(func(r map[string]any) { delete(r, "signedData") }))
	add("did-suffix-removed", with(func(r map[string]any) { delete(r, "didSuffix") }))
	if kind == ref.Deactivate {
		add("request-suffix-substituted", with(func(r map[string]any) { r["didSuffix"] = ref.HashBytes(alg, []byte("another did")) }))
	}
	return out
}

// execTamper is the C02 enumeration step: against the state the DID is in on observer 0, the valid operation is
// accepted and every tamper of it is refused (or degraded as documented) leaving the previous state untouched.
func (w *World) execTamper(stepIdx int, st *Step) {
	w.Advance(w.Plan.Swarm.BlockInterval * 3) // let everything submitted so far be anchored and processed
	wl := w.wallet(st.Wallet)
	d := wl.did(st.DID)
	o := w.observer(0)
	if o == nil || !d.Created {
		w.T.Probe("tamper_base_missing")
		return
	}
	f := o.folds[d.Suffix]
	if f == nil || f.rm == nil || f.rm.Doc == nil || f.stopped {
		w.T.Probe("tamper_base_missing")
		return
	}
	prev := f.rm
	sub := *st
	sub.Op, sub.Fault, sub.Builder = SSubmit, ref.FNone, "raw"
	// build without touching the wallet's bookkeeping
	saved := *d
	op := wl.build(stepIdx, &sub)
	*d = saved
	if op == nil {
		return
	}
	kind := op.Truth.Kind
	parsed, err := ref.Parse(op.Bytes)
	req, _ := parsed.(map[string]any)
	if err != nil || req == nil {
		return
	}
	anchorAs := string(kind)
	anch := func(b []byte) *operation.AnchoredOperation {
		return &operation.AnchoredOperation{Type: operation.Type(anchorAs), UniqueSuffix: d.Suffix, OperationRequest: b,
			TransactionTime: uint64(w.Now("ledger")), TransactionNumber: 1, ProtocolVersion: w.Plan.Swarm.GenesisTime, CanonicalReference: "uEiTamper"}
	}
	before := snapshotRM(prev)
	good, gerr := w.Applier.Apply(anch(op.Bytes), prev)
	if gerr != nil || good == nil {
		w.T.Probe("tamper_base_not_accepted")
		return
	}
	if kind != ref.Deactivate && good.UpdateCommitment != op.Truth.UpdCommit {
		w.T.Probe("tamper_base_degraded")
		return
	}
	w.T.Count("tamper_bases", 1)
	keyType := w.Pool.Get(op.SignKey.Idx).Type
	w.T.Mark(fmt.Sprintf("tamper:%s:%s:%d", kind, keyType, op.Alg))
	attacker := w.Pool.Get((op.SignKey.Idx + 7) % len(w.Pool.Keys))
	cat := w.tamperCatalogue(req, kind, op.Alg, op.SignKey.Idx, attacker)
	for i, t := range cat {
		if st.Index > 0 && st.Index-1 != i {
			continue
		}
		if t.prime != nil {
			anchorAs = t.primeType
			if _, perr := w.Applier.Apply(anch(t.prime), prev); perr == nil {
				w.T.Probe("tamper_primed")
			}
		}
		anchorAs = string(kind)
		if t.asType != "" {
			anchorAs = t.asType
		}
		next, terr := w.Applier.Apply(anch(t.bytes), prev)
		anchorAs = string(kind)
		w.T.Count("tampers_applied", 1)
		w.T.Fault("tamper_" + strings.SplitN(t.label, "/", 2)[0])
		class := strings.SplitN(t.label, "/", 2)[0]
		if strings.HasPrefix(t.label, "signature-bit/") {
			class = "signature-bit"
		} else {
			class = t.label
		}
		wit := fmt.Sprintf("%s:%s", kind, class)
		if after := snapshotRM(prev); after != before {
			w.violate("C02/previous-state-changed", wit, "tamper %s of a %s: Apply changed the previous state", t.label, kind)
			return
		}
		switch t.expect {
		case "R":
			if terr == nil {
				w.violate("C02/forgery-accepted", wit, "tamper #%d %s of a valid %s (key %s) was applied: update commitment %q recovery commitment %q deactivated %v",
					i, t.label, kind, keyType, next.UpdateCommitment, next.RecoveryCommitment, next.Deactivated)
			} else if next != nil {
				w.violate("C02/error-with-state", wit, "tamper %s: error and state", t.label)
			}
		case "D0":
			if terr != nil {
				w.violate("C02/recover-degradation", wit, "recover with a bad delta (%s) must be applied with an empty document, got error %v", t.label, terr)
			} else if len(next.Doc) != 0 || next.UpdateCommitment != "" || next.RecoveryCommitment != op.Truth.RecCommit {
				w.violate("C02/unsigned-content-installed", wit, "recover with a substituted delta (%s) installed content: doc %s update commitment %q recovery commitment %q (signed: %q)",
					t.label, clip(ref.JCS(normDoc(next.Doc))), next.UpdateCommitment, next.RecoveryCommitment, op.Truth.RecCommit)
			}
		}
	}
}
