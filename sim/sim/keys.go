// Package sim is the simulator proper: key pool, actors, network, disk, executor and property profiles.
package sim

import (
	"crypto"
	"crypto/ecdsa"
	"crypto/ed25519"
	"crypto/elliptic"
	"crypto/rand"
	"crypto/sha256"
	"crypto/sha512"
	"fmt"
	"math/big"

	"github.com/btcsuite/btcd/btcec/v2"

	"verif/sim/core"
	"verif/sim/ref"
)

// KeyType enumerates the five supported signing-key types.
type KeyType int

const (
	Ed25519 KeyType = iota
	P256
	P384
	P521
	Secp256k1
	numKeyTypes
)

var keyTypeNames = [...]string{"Ed25519", "P-256", "P-384", "P-521", "secp256k1"}

func (k KeyType) String() string { return keyTypeNames[k] }

// Crv is the JWK curve name.
func (k KeyType) Crv() string { return keyTypeNames[k] }

// Alg is the JWS algorithm name.
func (k KeyType) Alg() string {
	return [...]string{"EdDSA", "ES256", "ES384", "ES512", "ES256K"}[k]
}

// Kty is the JWK key type.
func (k KeyType) Kty() string {
	if k == Ed25519 {
		return "OKP"
	}
	return "EC"
}

func (k KeyType) curve() elliptic.Curve {
	switch k {
	case P256:
		return elliptic.P256()
	case P384:
		return elliptic.P384()
	case P521:
		return elliptic.P521()
	case Secp256k1:
		return btcec.S256()
	}
	return nil
}

// CoordSize is the byte width of a coordinate / signature half.
func (k KeyType) CoordSize() int { return [...]int{32, 32, 48, 66, 32}[k] }

func (k KeyType) hash(msg []byte) []byte {
	switch k {
	case P384:
		h := sha512.Sum384(msg)
		return h[:]
	case P521:
		h := sha512.Sum512(msg)
		return h[:]
	default:
		h := sha256.Sum256(msg)
		return h[:]
	}
}

// Key is one pool entry.
type Key struct {
	Idx  int
	Type KeyType
	EC   *ecdsa.PrivateKey
	Ed   ed25519.PrivateKey
	// X, Y are the fixed-width public coordinates (Ed25519: X is the 32-byte public key, Y empty).
	X, Y []byte
	// Tags such as "x0" (leading zero byte in X), "y0".
	Tags []string
}

// Public returns the crypto public key.
func (k *Key) Public() crypto.PublicKey {
	if k.Type == Ed25519 {
		return k.Ed.Public().(ed25519.PublicKey)
	}
	return &k.EC.PublicKey
}

// RefJWK is the JWK of the key as a generic JSON object, built by the harness from the raw coordinates
// (independently of the library's JWK encoder). Ed25519 keys carry an empty "y" member (C04 statement).
func (k *Key) RefJWK(nonce string) map[string]any {
	m := map[string]any{"kty": k.Type.Kty(), "crv": k.Type.Crv(), "x": ref.B64(k.X), "y": ref.B64(k.Y)}
	if nonce != "" {
		m["nonce"] = nonce
	}
	return m
}

// SignRaw signs msg directly with the crypto primitives (fixed-width r||s for ECDSA).
func (k *Key) SignRaw(msg []byte) []byte {
	if k.Type == Ed25519 {
		return ed25519.Sign(k.Ed, msg)
	}
	r, s, err := ecdsa.Sign(rand.Reader, k.EC, k.Type.hash(msg))
	if err != nil {
		panic(err)
	}
	n := k.Type.CoordSize()
	out := make([]byte, 2*n)
	r.FillBytes(out[:n])
	s.FillBytes(out[n:])
	return out
}

// Pool is the per-process key pool; deterministic function of its seed.
type Pool struct {
	Keys   []*Key
	ByType [numKeyTypes][]int
}

// NewPool derives perType keys of each type from seed, and searches (seeded) for EC keys whose X resp. Y
// coordinate has a leading zero byte: zeros per curve and coordinate.
func NewPool(seed uint64, perType, zeros int) *Pool {
	p := &Pool{}
	rng := core.NewRNG(seed).Stream("keypool")
	add := func(k *Key) {
		k.Idx = len(p.Keys)
		p.Keys = append(p.Keys, k)
		p.ByType[k.Type] = append(p.ByType[k.Type], k.Idx)
	}
	for t := KeyType(0); t < numKeyTypes; t++ {
		for i := 0; i < perType; i++ {
			add(deriveKey(t, rng))
		}
		if t == Ed25519 {
			continue
		}
		needX, needY := zeros, zeros
		for tries := 0; (needX > 0 || needY > 0) && tries < 200000; tries++ {
			k := deriveKey(t, rng)
			switch {
			case needX > 0 && k.X[0] == 0:
				needX--
				add(k)
			case needY > 0 && k.Y[0] == 0:
				needY--
				add(k)
			}
		}
		if needX > 0 || needY > 0 {
			panic("key pool: leading-zero search exhausted")
		}
	}
	// keys whose X and Y BOTH start with a zero byte (p ~ 2^-16 per key; smallest such private scalars, found once by
	// exhaustive search and listed here so that every run has them)
	for _, dz := range []struct {
		t KeyType
		d int64
	}{{P256, 49350}, {P256, 112756}, {P384, 6394}, {P384, 10184}, {P521, 62859}, {P521, 183519}, {Secp256k1, 55959}, {Secp256k1, 62762}} {
		k := keyFromScalar(dz.t, big.NewInt(dz.d))
		if k.X[0] == 0 && k.Y[0] == 0 {
			k.Tags = []string{"x0y0"}
			add(k)
		}
	}
	// keys with TWO leading zero bytes in one coordinate (p ~ 2^-15 per key; smallest such scalars, found once by search)
	for _, dz := range []struct {
		t   KeyType
		d   int64
		tag string
	}{{P256, 40393, "x00"}, {P256, 2376, "y00"}, {Secp256k1, 44629, "x00"}, {Secp256k1, 41192, "y00"}, {P384, 14971, "x00"}, {P384, 93150, "y00"}} {
		k := keyFromScalar(dz.t, big.NewInt(dz.d))
		c := k.X
		if dz.tag == "y00" {
			c = k.Y
		}
		if c[0] == 0 && c[1] == 0 {
			k.Tags = []string{dz.tag}
			add(k)
		}
	}
	return p
}

func keyFromScalar(t KeyType, d *big.Int) *Key {
	c := t.curve()
	x, y := c.ScalarBaseMult(d.Bytes()) //nolint:staticcheck
	size := t.CoordSize()
	k := &Key{Type: t, X: make([]byte, size), Y: make([]byte, size)}
	x.FillBytes(k.X)
	y.FillBytes(k.Y)
	k.EC = &ecdsa.PrivateKey{PublicKey: ecdsa.PublicKey{Curve: c, X: x, Y: y}, D: d}
	return k
}

func deriveKey(t KeyType, rng *core.RNG) *Key {
	if t == Ed25519 {
		priv := ed25519.NewKeyFromSeed(rng.Bytes(32))
		pub := priv.Public().(ed25519.PublicKey)
		return &Key{Type: t, Ed: priv, X: append([]byte{}, pub...), Y: nil}
	}
	c := t.curve()
	n := c.Params().N
	var d *big.Int
	for {
		d = new(big.Int).SetBytes(rng.Bytes((n.BitLen() + 7) / 8))
		d.Mod(d, n)
		if d.Sign() > 0 {
			break
		}
	}
	x, y := c.ScalarBaseMult(d.Bytes()) //nolint:staticcheck
	size := t.CoordSize()
	k := &Key{Type: t, X: make([]byte, size), Y: make([]byte, size)}
	x.FillBytes(k.X)
	y.FillBytes(k.Y)
	k.EC = &ecdsa.PrivateKey{PublicKey: ecdsa.PublicKey{Curve: c, X: x, Y: y}, D: d}
	if k.X[0] == 0 {
		k.Tags = append(k.Tags, "x0")
	}
	if k.Y[0] == 0 {
		k.Tags = append(k.Tags, "y0")
	}
	return k
}

func (p *Pool) Get(i int) *Key {
	if i < 0 || i >= len(p.Keys) {
		panic(fmt.Sprintf("pool index %d out of range", i))
	}
	return p.Keys[i]
}

// PickOfType returns a pool index of the given type.
func (p *Pool) PickOfType(r *core.RNG, t KeyType) int { return core.Pick(r, p.ByType[t]) }

// DefaultPool is the pool every plan uses unless it names another one.
var DefaultPool = [3]uint64{0xC0FFEE, 6, 2}

var poolCache = map[[3]uint64]*Pool{}

// PoolFor returns (and caches) the pool with the given parameters.
func PoolFor(params [3]uint64) *Pool {
	if params == ([3]uint64{}) {
		params = DefaultPool
	}
	if p, ok := poolCache[params]; ok {
		return p
	}
	p := NewPool(params[0], int(params[1]), int(params[2]))
	poolCache[params] = p
	return p
}

// WithFresh returns a copy of the pool in which every key type is served by n keys derived from rng instead of the
// shared ones: runs that use it present key material no earlier run of the process has
// shown to the library (process-level state that accumulates per distinct key only grows this way).
func (p *Pool) WithFresh(rng *core.RNG, n int) *Pool {
	q := &Pool{Keys: append([]*Key{}, p.Keys...), ByType: p.ByType}
	for t := KeyType(0); t < numKeyTypes; t++ {
		var idxs []int
		for i := 0; i < n; i++ {
			k := deriveKey(t, rng)
			k.Idx = len(q.Keys)
			q.Keys = append(q.Keys, k)
			idxs = append(idxs, k.Idx)
		}
		q.ByType[t] = idxs
	}
	return q
}
