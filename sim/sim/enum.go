package sim

import (
	"bytes"
	"crypto/ecdsa"
	"crypto/ed25519"
	"encoding/json"
	"fmt"
	"math/big"
	"sort"
	"strconv"
	"strings"

	"github.com/trustbloc/sidetree-go/pkg/commitment"
	"github.com/trustbloc/sidetree-go/pkg/docutil"
	"github.com/trustbloc/sidetree-go/pkg/hashing"
	"github.com/trustbloc/sidetree-go/pkg/jws"
	"github.com/trustbloc/sidetree-go/pkg/jwsutil"
	"github.com/trustbloc/sidetree-go/pkg/util/signutil"
	"github.com/trustbloc/sidetree-go/pkg/versions/1_0/client"

	"verif/sim/core"
	"verif/sim/ref"
)

// ------------------------------------------------------------------ C03: create binding

type leaf struct {
	path []string // member names / indices from the request root
}

func leavesOf(v any, path []string, out *[]leaf, containers *[]leaf) {
	switch x := v.(type) {
	case map[string]any:
		keys := make([]string, 0, len(x))
		for k := range x {
			keys = append(keys, k)
		}
		sort.Strings(keys)
		for _, k := range keys {
			p := append(append([]string{}, path...), k)
			*containers = append(*containers, leaf{p})
			leavesOf(x[k], p, out, containers)
		}
	case []any:
		for i, e := range x {
			p := append(append([]string{}, path...), strconv.Itoa(i))
			leavesOf(e, p, out, containers)
		}
	default:
		*out = append(*out, leaf{path})
	}
}

func getPath(v any, path []string) any {
	for _, t := range path {
		switch x := v.(type) {
		case map[string]any:
			v = x[t]
		case []any:
			i, _ := strconv.Atoi(t)
			v = x[i]
		}
	}
	return v
}

// editPath returns a deep copy of root with the value at path replaced (del: member removed).
func editPath(root any, path []string, val any, del bool) any {
	cp := ref.Clone(root)
	cur := cp
	for i, t := range path {
		last := i == len(path)-1
		switch x := cur.(type) {
		case map[string]any:
			if last {
				if del {
					delete(x, t)
				} else {
					x[t] = val
				}
				return cp
			}
			cur = x[t]
		case []any:
			idx, _ := strconv.Atoi(t)
			if last {
				x[idx] = val
				return cp
			}
			cur = x[idx]
		}
	}
	return cp
}

func mutateScalar(v any) any {
	switch x := v.(type) {
	case string:
		if x == "" {
			return "x"
		}
		b := []byte(x)
		i := len(b) / 2
		if b[i] == 'A' {
			b[i] = 'B'
		} else {
			b[i] = 'A'
		}
		return string(b)
	case json.Number:
		f, _ := x.Float64()
		return json.Number(strconv.FormatFloat(f+1, 'f', -1, 64))
	case bool:
		return !x
	case nil:
		return json.Number("0")
	}
	return "x"
}

// execCreateBinding is the C03 enumeration over one create request.
func (w *World) execCreateBinding(stepIdx int, st *Step) {
	wl := w.wallet(st.Wallet)
	sub := *st
	sub.Op, sub.Fault = SSubmit, ref.FNone
	op := wl.build(stepIdx, &sub)
	if op == nil {
		return
	}
	ns := w.Plan.Swarm.Namespace
	parsed, err := ref.Parse(op.Bytes)
	req, _ := parsed.(map[string]any)
	if err != nil || req == nil {
		return
	}
	sd, _ := req["suffixData"].(map[string]any)
	delta, _ := req["delta"].(map[string]any)
	r := core.NewRNG(w.Plan.Seed).Stream(fmt.Sprintf("c03/%d", stepIdx))
	parser := w.Intake.parser

	res, err := parser.Parse(ns, op.Bytes)
	w.T.Count("create_requests", 1)
	if err != nil {
		w.violate("C03/honest-create-refused", op.Builder, "create built by %s refused: %v", op.Builder, err)
		return
	}
	wantSuffix := ref.ModelHash(w.firstAlg(), sd)
	w.T.Mark(fmt.Sprintf("c03:%s:%d:%v:%v:%s", op.Builder, op.Alg, sd["anchorOrigin"] != nil, sd["type"] != nil, actionsOf(listOf(delta["patches"]))))
	if res.UniqueSuffix != wantSuffix {
		w.violate("C03/suffix", op.Builder, "unique suffix %s, reference multihash of the canonical suffix data %s", res.UniqueSuffix, wantSuffix)
	}
	if res.ID != ns+":"+res.UniqueSuffix {
		w.violate("C03/id", "", "ID %q is not namespace + ':' + suffix (%q)", res.ID, ns+":"+res.UniqueSuffix)
	}
	dh, _ := sd["deltaHash"].(string)
	if code, _, derr := ref.DecodeMultihash(dh); derr != nil || ref.ModelHash(code, delta) != dh {
		w.violate("C03/delta-hash", op.Builder, "accepted create whose delta does not hash to the recorded delta hash")
	}

	// re-serialisations: same DID on every node
	for i := 0; i < 12; i++ {
		re := reencode(r, req)
		w.T.Count("reencodings_checked", 1)
		w.T.Fault("reencoded_request")
		res2, err2 := parser.Parse(ns, re)
		if err2 != nil {
			w.violate("C03/reencoding-refused", "", "re-serialised create refused: %v (%s)", err2, clip(re))
			break
		}
		if res2.UniqueSuffix != wantSuffix || res2.ID != res.ID {
			w.violate("C03/reencoding-changes-did", "", "re-serialised create denotes %s instead of %s (%s)", res2.ID, res.ID, clip(re))
			break
		}
	}

	// single-point modifications of every member of suffix data and delta
	var leaves, members []leaf
	leavesOf(map[string]any{"suffixData": sd, "delta": delta}, nil, &leaves, &members)
	check := func(label string, mod any, inSuffixData bool) {
		b := ref.JCS(mod)
		w.T.Count("modifications_checked", 1)
		w.T.Fault("modified_request")
		res3, err3 := parser.Parse(ns, b)
		if err3 != nil {
			return
		}
		if !inSuffixData {
			w.violate("C03/delta-modification-accepted", label, "create with modified delta (%s) accepted under the same DID %s", label, res3.ID)
		} else if res3.UniqueSuffix == wantSuffix {
			w.violate("C03/suffix-data-modification-same-did", label, "create with modified suffix data (%s) still denotes %s", label, res3.ID)
		}
		// whatever was accepted is a create request in its own right: its delta must hash to the delta hash it records
		if mm, isObj := mod.(map[string]any); isObj {
			msd, _ := mm["suffixData"].(map[string]any)
			mdh, _ := msd["deltaHash"].(string)
			if code, _, derr := ref.DecodeMultihash(mdh); derr != nil || ref.ModelHash(code, mm["delta"]) != mdh {
				w.violate("C03/delta-hash", label, "accepted create (%s) whose delta does not hash to the delta hash it records (%q)", label, mdh)
			}
		}
	}
	n := 0
	for _, l := range leaves {
		n++
		if st.Index > 0 && st.Index != n {
			continue
		}
		old := getPath(req, l.path)
		check("value:"+pathClass(l.path), editPath(req, l.path, mutateScalar(old), false), l.path[0] == "suffixData")
	}
	for _, l := range members {
		n++
		if st.Index > 0 && st.Index != n {
			continue
		}
		check("removed:"+pathClass(l.path), editPath(req, l.path, nil, true), l.path[0] == "suffixData")
	}
	// hash-valued members re-encoded as well-formed multihashes of the same code with a shortened / lengthened digest
	for _, l := range leaves {
		old, _ := getPath(req, l.path).(string)
		code, digest, derr := ref.DecodeMultihash(old)
		if derr != nil || len(digest) < 4 {
			continue
		}
		for _, keep := range []int{0, 1, len(digest) / 2, len(digest) - 1, len(digest) + 1} {
			n++
			if st.Index > 0 && st.Index != n {
				continue
			}
			d := append(append([]byte{}, digest...), 0)[:keep]
			check(fmt.Sprintf("digest-length-%d:%s", keep-len(digest), pathClass(l.path)), editPath(req, l.path, ref.B64(ref.MultihashBytes(code, d)), false), l.path[0] == "suffixData")
		}
		// the same digest under codes that are not configured (other registered hash functions, the identity code)
		for _, other := range []uint{0x16, 0x1b, 0x11, 0x00, ref.SHA256 + ref.SHA512 - code} {
			n++
			if st.Index > 0 && st.Index != n {
				continue
			}
			if other == code {
				continue
			}
			check(fmt.Sprintf("hash-code-%#x:%s", other, pathClass(l.path)), editPath(req, l.path, ref.B64(ref.MultihashBytes(other, digest)), false), l.path[0] == "suffixData")
		}
	}
	// members ADDED to objects inside the patches (generic JSON there: every member is hashed); names a lenient
	// implementation might strip or special-case (private JWK parts, members of neighbouring models)
	var objs [][]string
	var walkObjs func(v any, path []string)
	walkObjs = func(v any, path []string) {
		switch x := v.(type) {
		case map[string]any:
			objs = append(objs, path)
			for _, k := range core.SortedKeys(x) {
				walkObjs(x[k], append(append([]string{}, path...), k))
			}
		case []any:
			for i, e := range x {
				walkObjs(e, append(append([]string{}, path...), strconv.Itoa(i)))
			}
		}
	}
	walkObjs(getPath(req, []string{"delta", "patches"}), []string{"delta", "patches"})
	for _, op := range objs {
		obj, _ := getPath(req, op).(map[string]any)
		for _, name := range []string{"d", "x5c", "nonce", "extra", "", "id2", "controller", "publicKeyMultibase"} {
			if _, exists := obj[name]; exists || obj == nil {
				continue
			}
			n++
			if st.Index > 0 && st.Index != n {
				continue
			}
			check("member-added:"+name+":"+pathClass(op), editPath(req, append(append([]string{}, op...), name), "added", false), false)
		}
	}
	// type-changing modifications: the same characters as another JSON type or structure (a number as a string, a
	// list as one joined string, a container as its printed form) - single-field modifications an implementation that
	// flattens values (cache keys, string concatenation) would confuse with the original
	var nodes []leaf
	nodes = append(nodes, leaves...)
	nodes = append(nodes, members...)
	for _, l := range nodes {
		old := getPath(req, l.path)
		for vi, alt := range retyped(old) {
			n++
			if st.Index > 0 && st.Index != n {
				continue
			}
			if ref.Equal(alt, old) {
				continue
			}
			check(fmt.Sprintf("retyped%d:%s", vi, pathClass(l.path)), editPath(req, l.path, alt, false), l.path[0] == "suffixData")
		}
	}
	// after everything this parser has been shown and has refused, the original request still denotes the same DID
	if res4, err4 := parser.Parse(ns, op.Bytes); err4 != nil || res4.UniqueSuffix != wantSuffix || res4.ID != res.ID {
		w.violate("C03/same-request-other-did-later", op.Builder, "the original create, parsed again after the modifications, denotes %v (err %v) instead of %s", res4, err4, res.ID)
	}
}

// retyped returns values that print like v but have another JSON type or structure.
func retyped(v any) []any {
	var out []any
	switch x := v.(type) {
	case json.Number:
		out = append(out, string(x))
	case string:
		if _, err := strconv.ParseFloat(x, 64); err == nil && x != "" {
			out = append(out, json.Number(x))
		}
		out = append(out, []any{x})
		if strings.Contains(x, " ") {
			parts := strings.Split(x, " ")
			l := make([]any, len(parts))
			for i, p := range parts {
				l[i] = p
			}
			out = append(out, l)
		}
	case bool:
		out = append(out, fmt.Sprint(x))
	case nil:
		out = append(out, "<nil>", "null")
	case []any:
		var strs []string
		all := true
		for _, e := range x {
			s, ok := e.(string)
			if !ok {
				all = false
				break
			}
			strs = append(strs, s)
		}
		if all && len(strs) > 1 {
			out = append(out, []any{strings.Join(strs, " ")}, strings.Join(strs, " "))
		}
		out = append(out, fmt.Sprint(goValue(x)), string(ref.JCS(x)))
	case map[string]any:
		out = append(out, fmt.Sprint(goValue(x)), string(ref.JCS(x)))
	}
	return out
}

// goValue converts a generic JSON value into what encoding/json decodes into interface{} (float64 numbers), so that
// fmt.Sprint renders it the way the library would see it.
func goValue(v any) any {
	switch x := v.(type) {
	case json.Number:
		f, _ := x.Float64()
		return f
	case []any:
		out := make([]interface{}, len(x))
		for i, e := range x {
			out[i] = goValue(e)
		}
		return out
	case map[string]any:
		out := make(map[string]interface{}, len(x))
		for k, e := range x {
			out[k] = goValue(e)
		}
		return out
	}
	return v
}

// pathClass abstracts a path (indices and ids dropped) so that witnesses are stable.
func pathClass(path []string) string {
	var out []string
	for _, t := range path {
		if _, err := strconv.Atoi(t); err == nil {
			out = append(out, "*")
		} else {
			out = append(out, t)
		}
	}
	if len(out) > 4 {
		out = out[:4]
	}
	return strings.Join(out, ".")
}

// ------------------------------------------------------------------ C06: content addresses on a simulated CAS

// genJSONValue draws a nested JSON value with awkward member names and numbers.
func genJSONValue(r *core.RNG, depth int) any {
	if depth > 3 {
		return "leaf"
	}
	switch r.Intn(9) {
	case 0:
		return nil
	case 1:
		return r.Chance(1, 2)
	case 2:
		return json.Number(core.Pick(r, []string{"0", "1", "-1", "1e21", "1e-7", "0.1", "123456789012", "1.5e300", "4.5", "100", "1e20",
			// integer literals beyond 2^53 (not every one is a double: RFC 8785 serialises the nearest double), other notations of the same number
			"9007199254740992", "9007199254740993", "-9007199254740995", "9999999999999999", "9123456789012345", "123456789012345678", "999999999999999", "-0", "1.0", "1E3", "100e-2",
			"0.000001", "1e-6", "5e-324", "1.7976931348623157e308", "0.30000000000000004", "4.35", "333333333.33333329"}))
	case 3:
		return core.Pick(r, []string{"", "text", "ünï ✓", "\u0001\u001f", "quote\"back\\slash/", "\U0001F600", "€", "line\nbreak", "sep\u2028\u2029", "<&>", "del\u007f", "nul\u0000", "\ufeff", "\uffff\U00010000"})
	case 4, 5:
		n := r.Intn(4)
		l := make([]any, n)
		for i := range l {
			l[i] = genJSONValue(r, depth+1)
		}
		return l
	default:
		m := map[string]any{}
		for n := r.Intn(4); n > 0; n-- {
			m[core.Pick(r, []string{"a", "b", "", "ä", "\U0001F600", "דּ", "1", "10", "2", "A", "key with space", "€"})] = genJSONValue(r, depth+1)
		}
		return m
	}
}

func (w *World) execCAS(stepIdx int, st *Step) {
	r := core.NewRNG(w.Plan.Seed).Stream(fmt.Sprintf("c06/%d", stepIdx))
	var v any
	switch kind, _ := st.Args["kind"].(string); kind {
	case "jwk":
		v = w.Pool.Get(r.Intn(len(w.Pool.Keys))).RefJWK("")
	case "delta":
		var other []string
		s := w.Plan.Swarm
		v = map[string]any{"updateCommitment": ref.Commitment(w.firstAlg(), w.Pool.Get(0).RefJWK("")),
			"patches": w.resolvePatches(genPatches(r, w.Pool, &s, 2, &other))}
	case "document":
		s := w.Plan.Swarm
		d, err := ref.Compose(map[string]any{}, resolveForGen(w.Pool, genSetup(r, w.Pool, &s)))
		if err != nil {
			return
		}
		v = d
	default:
		v = map[string]any{"v": genJSONValue(r, 0), "n": genJSONValue(r, 1)}
	}
	v = ref.Norm(v)
	alg := uint(ref.SHA256)
	other := uint(ref.SHA512)
	if r.Chance(1, 2) {
		alg, other = other, alg
	}
	h, err := hashing.CalculateModelMultihash(v, alg)
	w.T.Count("cas_objects", 1)
	w.T.Mark(fmt.Sprintf("cas:%s:%d:%d", st.Args["kind"], alg, len(ref.JCS(v))/64))
	want := ref.ModelHash(alg, v)
	if err != nil || h != want {
		w.violate("C06/model-hash", fmt.Sprint(alg), "CalculateModelMultihash=%q err=%v, reference %q for %s", h, err, want, clip(ref.JCS(v)))
		return
	}
	id, err := docutil.CalculateID(w.Plan.Swarm.Namespace, v, alg)
	if err != nil || id != w.Plan.Swarm.Namespace+":"+want {
		w.violate("C06/calculate-id", "", "CalculateID=%q err=%v", id, err)
	}
	// the reader: json.Unmarshal then IsValidModelMultihash(value, hash)
	read := func(stored []byte, hash string) error {
		var x any
		if err := json.Unmarshal(stored, &x); err != nil {
			return err
		}
		return hashing.IsValidModelMultihash(x, hash)
	}
	canonical := ref.JCS(v)
	if err := read(canonical, h); err != nil {
		w.violate("C06/read-own-object", "", "stored object does not validate against its own hash: %v", err)
		return
	}
	for i := 0; i < 6; i++ {
		re := reencode(r, v)
		w.T.Count("cas_faults", 1)
		w.T.Fault("cas_benign_reencoding")
		if err := read(re, h); err != nil {
			w.violate("C06/reencoding-rejected", "", "benign re-encoding rejected: %v (%s)", err, clip(re))
			break
		}
	}
	// every byte of the stored value x {bit flip, delete, insert}
	n := 0
	try := func(kind string, corrupted []byte) {
		n++
		if st.Index > 0 && st.Index != n {
			return
		}
		w.T.Count("cas_faults", 1)
		w.T.Fault("cas_" + kind)
		got := read(corrupted, h)
		pv, perr := ref.Parse(corrupted)
		same := perr == nil && ref.Equal(pv, v)
		if same && got != nil {
			w.violate("C06/equal-value-rejected", kind, "corruption (%s) left the JSON value equal but validation failed: %v", kind, got)
		}
		if !same && got == nil {
			w.violate("C06/corruption-undetected", kind, "corrupted object (%s) validated against the original hash: %s vs %s", kind, clip(corrupted), clip(canonical))
		}
	}
	for i := range canonical {
		c := append([]byte{}, canonical...)
		c[i] ^= 1 << uint(r.Intn(8))
		try("bit_flip", c)
		try("byte_deleted", append(append([]byte{}, canonical[:i]...), canonical[i+1:]...))
		ins := append(append([]byte{}, canonical[:i]...), byte(core.Pick(r, []byte("0a\",:{}[]e. "))))
		try("byte_inserted", append(ins, canonical[i:]...))
	}
	// faults on the hash string
	alpha := "ABCDEFGHIJKLMNOPQRSTUVWXYZabcdefghijklmnopqrstuvwxyz0123456789-_"
	tryHash := func(kind, hs string) {
		n++
		if st.Index > 0 && st.Index != n {
			return
		}
		w.T.Count("cas_faults", 1)
		w.T.Fault("hash_" + kind)
		err := hashing.IsValidModelMultihash(v, hs)
		code, digest, derr := ref.DecodeMultihash(hs)
		shouldPass := derr == nil && (code == ref.SHA256 || code == ref.SHA512) && hs == ref.ModelHash(code, v)
		_ = digest
		if shouldPass && err != nil {
			w.violate("C06/valid-hash-rejected", kind, "hash %q computed from the value with the algorithm in its prefix rejected: %v", hs, err)
		}
		if !shouldPass && err == nil {
			w.violate("C06/wrong-hash-accepted", kind, "hash string %q (%s) accepted for the value hashed to %q", hs, kind, h)
		}
		gc, gerr := hashing.GetMultihashCode(hs)
		if gerr == nil && (derr != nil || uint64(code) != gc) && derr == nil {
			w.violate("C06/code-disagrees-with-prefix", kind, "GetMultihashCode(%q)=%d, prefix says %d", hs, gc, code)
		}
		if derr != nil && gerr == nil && structurallyBroken(hs) {
			w.violate("C06/malformed-hash-accepted", kind, "GetMultihashCode accepted malformed %q (code %d)", hs, gc)
		}
		for _, c := range []uint{ref.SHA256, ref.SHA512} {
			if hashing.IsComputedUsingMultihashAlgorithms(hs, []uint{c}) != (derr == nil && code == c) {
				if derr == nil || structurallyBroken(hs) {
					w.violate("C06/computed-using-disagrees", kind, "IsComputedUsingMultihashAlgorithms(%q,[%d]) disagrees with the prefix (decode err %v, code %d)", hs, c, derr, code)
				}
			}
		}
	}
	for i := range h {
		b := []byte(h)
		nc := alpha[r.Intn(len(alpha))]
		if nc == b[i] {
			nc = alpha[(strings.IndexByte(alpha, nc)+1)%len(alpha)]
		}
		b[i] = nc
		tryHash("char_changed", string(b))
		tryHash("truncated", h[:i])
	}
	// characters that are not in the alphabet but that lenient decoders skip: the string is not the hash, and not base64url
	for _, k := range []int{0, len(h) / 2, len(h)} {
		tryHash("line_break_inserted", h[:k]+"\n"+h[k:])
		tryHash("line_break_inserted", h[:k]+"\r\n"+h[k:])
	}
	tryHash("non_alphabet", "*"+h[1:])
	tryHash("padded", h+"=")
	tryHash("std_alphabet", strings.NewReplacer("-", "+", "_", "/").Replace(h)+"+")
	raw, _ := ref.UnB64(h)
	tryHash("digest_shorter", ref.B64(raw[:len(raw)-1]))
	tryHash("digest_longer", ref.B64(append(append([]byte{}, raw...), 0)))
	wrongLen := append([]byte{}, raw...)
	wrongLen[1]++
	tryHash("length_field_wrong", ref.B64(wrongLen))
	for _, nb := range []int{1, 4, 16, len(raw) - 3} {
		// a self-consistent multihash whose digest is a PREFIX of the real one (length field adjusted)
		tryHash("digest_prefix_with_matching_length", ref.B64(ref.MultihashBytes(alg, raw[2:2+nb])))
	}
	// the same code / length / digest with redundant continuation bytes in a varint of the header (not minimally encoded)
	for _, padded := range [][]byte{
		append([]byte{raw[0] | 0x80, 0x00}, raw[1:]...),
		append([]byte{raw[0], raw[1] | 0x80, 0x00}, raw[2:]...),
		append([]byte{raw[0] | 0x80, 0x80, 0x00}, raw[1:]...),
		append([]byte{raw[0] | 0x80, 0x00, raw[1] | 0x80, 0x00}, raw[2:]...),
	} {
		tryHash("header_varint_not_minimal", ref.B64(padded))
	}
	tryHash("digest_extended_with_matching_length", ref.B64(ref.MultihashBytes(alg, append(append([]byte{}, raw[2:]...), 0, 0))))
	tryHash("identity_code_with_value", ref.B64(ref.MultihashBytes(0, ref.JCS(v))))
	tryHash("other_algorithm", ref.ModelHash(other, v))
	tryHash("empty", "")
	for code := uint(0); code < 0x60; code++ {
		if code == ref.SHA256 || code == ref.SHA512 {
			continue
		}
		n++
		if st.Index > 0 && st.Index != n {
			continue
		}
		w.T.Count("cas_faults", 1)
		w.T.Fault("unsupported_code")
		if _, err := hashing.CalculateModelMultihash(v, code); err == nil {
			w.violate("C06/unsupported-code-accepted", fmt.Sprint(code), "CalculateModelMultihash accepted code %#x", code)
		}
		fake := ref.B64(ref.MultihashBytes(code, raw[2:]))
		if hashing.IsValidModelMultihash(v, fake) == nil {
			w.violate("C06/unsupported-code-validated", fmt.Sprint(code), "a hash with unsupported code %#x validated", code)
		}
	}
}

// structurallyBroken: not base64url, or the declared digest length disagrees with what follows.
func structurallyBroken(hs string) bool {
	b, err := ref.UnB64(hs)
	if err != nil {
		return true
	}
	if len(b) < 2 {
		return true
	}
	_, _, derr := ref.DecodeMultihash(hs)
	return derr != nil
}

// ------------------------------------------------------------------ C15: JWS signatures

type jwsSigner struct {
	k   *Key
	kid string
}

func (w *World) execJWS(stepIdx int, st *Step) {
	r := core.NewRNG(w.Plan.Seed).Stream(fmt.Sprintf("c15/%d", stepIdx))
	idx := toInt(st.Args["key"]) % len(w.Pool.Keys)
	key := w.Pool.Get(idx)
	kid, _ := st.Args["kid"].(string)
	payload := r.Bytes(1 + toInt(st.Args["len"])%2048)
	if b, _ := st.Args["json"].(bool); b {
		payload = ref.JCS(map[string]any{"v": genJSONValue(r, 1)})
	}
	signer := libSigner(key, key.Type.Alg(), kid)
	if hv := toInt(st.Args["hdr"]); hv > 0 {
		// further protected header members, typed as a Go caller passes them (after parsing they come back as generic JSON values)
		signer = &headerSigner{Signer: signer, extra: jwsHeaderVariants[(hv-1)%len(jwsHeaderVariants)]}
		w.T.Probe("jws_extra_protected_headers")
	}
	jwk, err := libJWK(key, "")
	if err != nil {
		w.violate("C15/jwk", key.Type.String(), "GetPublicKeyJWK: %v", err)
		return
	}
	// look for the rare encodings: a signature half with a leading zero byte (seeded search, p ~ 1/128 per signature)
	var compact string
	for tries := 0; tries < 1+toInt(st.Args["search"]); tries++ {
		if tries > 0 {
			payload = append(payload, byte(tries))
		}
		c, serr := signutil.SignPayload(payload, signer)
		if serr != nil {
			w.violate("C15/sign", key.Type.String(), "SignPayload: %v", serr)
			return
		}
		compact = c
		if key.Type == Ed25519 {
			break
		}
		_, _, sig, _ := splitJWS(c)
		n := key.Type.CoordSize()
		if len(sig) == 2*n && (sig[0] == 0 || sig[n] == 0) {
			w.T.Probe("leading_zero_sig_" + key.Type.String())
			if key.Type == P521 {
				w.T.Probe("p521_66_byte_halves")
			}
			break
		}
	}
	h, p, sig, ok := splitJWS(compact)
	w.T.Count("jws_bases", 1)
	w.T.Mark(fmt.Sprintf("jws:%s:%v:%d", key.Type, kid != "", len(payload)/256))
	if !ok || !bytes.Equal(p, payload) {
		w.violate("C15/compact-form", key.Type.String(), "compact JWS does not carry the payload")
		return
	}
	wantSigLen := 64
	if key.Type != Ed25519 {
		wantSigLen = 2 * key.Type.CoordSize()
	}
	if len(sig) != wantSigLen {
		w.violate("C15/signature-width", key.Type.String(), "signature has %d bytes, want %d", len(sig), wantSigLen)
	}
	got, verr := jwsutil.VerifyJWS(compact, jwk)
	if verr != nil || got == nil || !bytes.Equal(got.Payload, payload) {
		w.violate("C15/valid-rejected", key.Type.String(), "JWS by the matching %s key does not verify: %v", key.Type, verr)
		return
	}
	// several signatures of one signer outstanding at the same time: two JWS objects built before either is serialised, and a raw
	// signature kept across the next Sign call - what a signer returned stays what it was
	{
		p2 := append(append([]byte{}, payload...), '!')
		j1, e1 := jwsutil.NewJWS(signer.Headers(), nil, payload, signer)
		j2, e2 := jwsutil.NewJWS(signer.Headers(), nil, p2, signer)
		if e1 != nil || e2 != nil {
			w.violate("C15/sign", key.Type.String(), "NewJWS: %v %v", e1, e2)
			return
		}
		for i, j := range []*jwsutil.JSONWebSignature{j1, j2} {
			c, cerr := j.SerializeCompact(false)
			want := [][]byte{payload, p2}[i]
			if got, verr := jwsutil.VerifyJWS(c, jwk); cerr != nil || verr != nil || got == nil || !bytes.Equal(got.Payload, want) {
				w.violate("C15/valid-rejected", key.Type.String()+":outstanding", "JWS %d of two built by one %s signer before either was serialised does not verify under the matching key: %v %v", i+1, key.Type, cerr, verr)
			}
		}
		raw1, se1 := signer.Sign([]byte("message one"))
		keep := append([]byte{}, raw1...)
		_, se2 := signer.Sign([]byte("message two"))
		if se1 != nil || se2 != nil || !bytes.Equal(raw1, keep) {
			w.violate("C15/signature-changed-later", key.Type.String(), "the signature returned by Sign was changed by the next Sign call of the same signer (%v %v)", se1, se2)
		}
		w.T.Count("outstanding_signatures_checked", 1)
	}
	hdrContent, _ := ref.Parse(h)
	n := 0
	mustFail := func(class, label, s string, k *jws.JWK) {
		n++
		if st.Index > 0 && st.Index != n {
			return
		}
		w.T.Count("jws_faults", 1)
		w.T.Fault("jws_" + class)
		if res, err := jwsutil.VerifyJWS(s, k); err == nil {
			w.violate("C15/tampered-verifies", key.Type.String()+":"+class, "%s: JWS verified although %s (payload returned: %d bytes)", key.Type, label, len(res.Payload))
		}
	}
	for seg, data := range [][]byte{h, p, sig} {
		for bit := 0; bit < len(data)*8; bit++ {
			d := append([]byte{}, data...)
			d[bit/8] ^= 1 << uint(bit%8)
			parts := [][]byte{h, p, sig}
			parts[seg] = d
			if seg == 0 {
				// a change that leaves the decoded header content equal is not a change of the header content
				if c, cerr := ref.Parse(d); cerr == nil && ref.Equal(c, hdrContent) {
					w.T.Probe("header_flip_same_content")
					continue
				}
			}
			mustFail([]string{"header_bit", "payload_bit", "signature_bit"}[seg], fmt.Sprintf("bit %d of segment %d was flipped", bit, seg), joinJWS(parts[0], parts[1], parts[2]), jwk)
		}
	}
	// every other key of the pool
	for _, other := range w.Pool.Keys {
		if other.Idx == idx {
			continue
		}
		oj, oerr := libJWK(other, "")
		if oerr != nil {
			continue
		}
		class := "other_key_same_type"
		if other.Type != key.Type {
			class = "other_key_other_type"
		}
		mustFail(class, fmt.Sprintf("verified under pool key %d (%s)", other.Idx, other.Type), compact, oj)
	}
	if key.Type != Ed25519 {
		// the other point with the same x: (x, p - y) is a valid, different key
		neg := *jwk
		p := key.EC.Curve.Params().P
		ny := new(big.Int).Sub(p, key.EC.Y)
		nb := make([]byte, key.Type.CoordSize())
		ny.FillBytes(nb)
		neg.Y = ref.B64(nb)
		mustFail("other_key_same_x", "verified under the key with the same x and negated y", compact, &neg)
		swapped := *jwk
		swapped.X, swapped.Y = jwk.Y, jwk.X
		mustFail("other_key_swapped", "verified under the JWK with x and y swapped", compact, &swapped)
	}
	// malformed forms, wrong-length signatures, unsupported key types
	parts := strings.Split(compact, ".")
	mustFail("malformed", "two segments", parts[0]+"."+parts[1], jwk)
	mustFail("malformed", "four segments", compact+"."+parts[2], jwk)
	mustFail("malformed", "empty signature", parts[0]+"."+parts[1]+".", jwk)
	mustFail("malformed", "empty payload", parts[0]+".."+parts[2], jwk)
	mustFail("malformed", "empty header", "."+parts[1]+"."+parts[2], jwk)
	mustFail("malformed", "padding", parts[0]+"."+parts[1]+"=."+parts[2], jwk)
	mustFail("malformed", "non-alphabet", parts[0]+"."+parts[1]+".*"+parts[2][1:], jwk)
	mustFail("malformed", "JSON serialisation", "{\"signature\":\""+parts[2]+"\"}", jwk)
	// the detached form (header..signature, payload supplied by the verifier) and its malformed splits
	if jd, derr := jwsutil.NewJWS(signer.Headers(), nil, payload, signer); derr == nil {
		det, _ := jd.SerializeCompact(true)
		dp := strings.Split(det, ".")
		if got, verr := jwsutil.VerifyJWS(det, jwk, jwsutil.WithJWSDetachedPayload(payload)); len(dp) != 3 || verr != nil || got == nil || !bytes.Equal(got.Payload, payload) {
			w.violate("C15/valid-rejected", key.Type.String()+":detached", "detached JWS by the matching %s key does not verify with the payload supplied: %v", key.Type, verr)
		} else {
			for _, bad := range []string{dp[0] + "..." + dp[2], dp[0] + "...." + dp[2], dp[0] + ".x.y." + dp[2], dp[0] + ".AAAA.BBBB." + dp[2], dp[0] + "." + dp[2], dp[0] + ".." + dp[2] + ".", "." + dp[0] + ".." + dp[2]} {
				n++
				if st.Index > 0 && st.Index != n {
					continue
				}
				w.T.Count("jws_faults", 1)
				w.T.Fault("jws_malformed_detached")
				if res, err := jwsutil.VerifyJWS(bad, jwk, jwsutil.WithJWSDetachedPayload(payload)); err == nil && res != nil {
					w.violate("C15/tampered-verifies", key.Type.String()+":malformed_detached", "%s: malformed compact form %q verified with a detached payload", key.Type, clipN([]byte(bad), 120))
				}
			}
			if _, err := jwsutil.VerifyJWS(det, jwk, jwsutil.WithJWSDetachedPayload(append(append([]byte{}, payload...), 'x'))); err == nil {
				w.violate("C15/tampered-verifies", key.Type.String()+":detached_payload_changed", "%s: detached JWS verified with another payload", key.Type)
			}
		}
	}
	mustFail("wrong_length", "signature one byte short", joinJWS(h, p, sig[:len(sig)-1]), jwk)
	mustFail("wrong_length", "signature one byte long", joinJWS(h, p, append(append([]byte{}, sig...), 0)), jwk)
	if key.Type != Ed25519 {
		n2 := key.Type.CoordSize()
		stripped := append(append([]byte{}, sig[:n2]...), sig[n2+1:]...)
		mustFail("wrong_length", "leading byte of s stripped", joinJWS(h, p, stripped), jwk)
	}
	if key.Type != Ed25519 {
		// a signature of this key whose r AND s both start with a zero byte (p = 2^-16 per honest signature, so it is constructed:
		// a nonce whose r has one, then a payload whose s has one): removing leading zero bytes must never give an accepted form
		unencoded := false
		if hm, isObj := hdrContent.(map[string]any); isObj {
			if b, isBool := hm["b64"].(bool); isBool && !b {
				unencoded = true // RFC 7797: the payload enters the signing input as it is
			}
		}
		cp, csig := craftDoubleZeroSignature(key, h, payload, unencoded)
		n2 := key.Type.CoordSize()
		if okJWS, verr := jwsutil.VerifyJWS(joinJWS(h, cp, csig), jwk); verr != nil || okJWS == nil || !bytes.Equal(okJWS.Payload, cp) {
			w.violate("C15/valid-rejected", key.Type.String(), "a valid %s signature whose halves both start with a zero byte does not verify: %v", key.Type, verr)
		} else {
			w.T.Probe("double_leading_zero_sig_" + key.Type.String())
			r0, s0 := csig[:n2], csig[n2:]
			mustFail("wrong_length", "both halves without their leading zero byte", joinJWS(h, cp, append(append([]byte{}, r0[1:]...), s0[1:]...)), jwk)
			mustFail("wrong_length", "r without its leading zero byte", joinJWS(h, cp, append(append([]byte{}, r0[1:]...), s0...)), jwk)
			mustFail("wrong_length", "s without its leading zero byte", joinJWS(h, cp, append(append([]byte{}, r0...), s0[1:]...)), jwk)
			mustFail("wrong_length", "both halves padded with a zero byte", joinJWS(h, cp, append(append(append([]byte{0}, r0...), 0), s0...)), jwk)
		}
	}
	mustFail("unsupported_kty", "RSA key", compact, &jws.JWK{Kty: "RSA", N: "AQAB", E: "AQAB"})
	mustFail("unsupported_kty", "oct key", compact, &jws.JWK{Kty: "oct", Crv: "x", X: "AAAA"})
	wrongCrv := *jwk
	wrongCrv.Crv = "P-999"
	mustFail("unsupported_crv", "unknown curve", compact, &wrongCrv)
	// a curve / key-type name is supported only in its exact spelling: other letter cases and characters that case folding identifies
	// with its letters (Kelvin sign, long s) name nothing
	for _, v := range []string{strings.ToUpper(jwk.Crv), strings.ToLower(jwk.Crv), strings.Replace(strings.Replace(jwk.Crv, "k", "\u212a", 1), "s", "\u017f", 1), " " + jwk.Crv, jwk.Crv + " "} {
		if v == jwk.Crv {
			continue
		}
		alt := *jwk
		alt.Crv = v
		mustFail("unsupported_crv", fmt.Sprintf("curve name spelled %q", v), compact, &alt)
	}
	for _, v := range []string{strings.ToLower(jwk.Kty), jwk.Kty + " "} {
		alt := *jwk
		alt.Kty = v
		mustFail("unsupported_kty", fmt.Sprintf("key type spelled %q", v), compact, &alt)
	}
	// nothing the faults above did may have changed what the matching key verifies (state kept between calls)
	if got2, verr2 := jwsutil.VerifyJWS(compact, jwk); verr2 != nil || got2 == nil || !bytes.Equal(got2.Payload, payload) {
		w.violate("C15/valid-rejected-after-faults", key.Type.String(), "the untouched JWS no longer verifies under the matching %s key after the fault enumeration: %v", key.Type, verr2)
	}
}

// ------------------------------------------------------------------ C16: public keys through the JWK encoding

func (w *World) execJWK(stepIdx int, st *Step) {
	idx := toInt(st.Args["key"]) % len(w.Pool.Keys)
	key := w.Pool.Get(idx)
	jwk, err := libJWK(key, "")
	w.T.Count("jwk_keys", 1)
	w.T.Mark(fmt.Sprintf("jwk:%d", idx))
	for _, t := range key.Tags {
		w.T.Probe("leading_zero_" + t + "_" + key.Type.String())
	}
	wit := key.Type.String() + ":" + strings.Join(key.Tags, "+")
	if err != nil {
		w.violate("C16/to-jwk", wit, "GetPublicKeyJWK failed: %v", err)
		return
	}
	want := key.RefJWK("")
	if jwk.Kty != want["kty"] || jwk.Crv != want["crv"] {
		w.violate("C16/kty-crv", wit, "kty/crv %s/%s, want %s/%s", jwk.Kty, jwk.Crv, want["kty"], want["crv"])
	}
	if jwk.X != want["x"] || jwk.Y != want["y"] {
		w.violate("C16/coordinates", wit, "JWK coordinates x=%s y=%s, want fixed-width x=%s y=%s", jwk.X, jwk.Y, want["x"], want["y"])
	}
	for _, c := range []string{jwk.X, jwk.Y} {
		if c == "" && key.Type == Ed25519 {
			continue
		}
		raw, derr := ref.UnB64(c)
		if derr != nil || len(raw) != key.Type.CoordSize() {
			w.violate("C16/width", wit, "coordinate %q decodes to %d bytes, want %d", c, len(raw), key.Type.CoordSize())
		}
	}
	wire, _ := json.Marshal(jwk)
	// the node reads it back
	readBack := func(b []byte) (any, error) {
		var j jwsutil.JWK
		if err := j.UnmarshalJSON(b); err != nil {
			return nil, err
		}
		return j.Key, nil
	}
	back, rerr := readBack(wire)
	if rerr != nil {
		w.violate("C16/read-back", wit, "JWK.UnmarshalJSON of the library's own JWK failed: %v", rerr)
		return
	}
	switch key.Type {
	case Ed25519:
		pk, ok := back.(ed25519.PublicKey)
		if !ok || !bytes.Equal(pk, key.X) {
			w.violate("C16/round-trip", wit, "Ed25519 key changed in the JWK round trip")
		}
		pk2, gerr := jwsutil.GetED25519PublicKey(jwk)
		if gerr != nil || !bytes.Equal(pk2, key.X) {
			w.violate("C16/round-trip", wit, "GetED25519PublicKey: %v", gerr)
		}
	default:
		pk, ok := back.(*ecdsa.PublicKey)
		if !ok || pk.X.Cmp(key.EC.X) != 0 || pk.Y.Cmp(key.EC.Y) != 0 || pk.Curve.Params().Name != key.EC.Curve.Params().Name {
			w.violate("C16/round-trip", wit, "EC key changed in the JWK round trip")
		}
	}
	for _, alg := range []uint{ref.SHA256, ref.SHA512} {
		c, cerr := commitment.GetCommitment(jwk, alg)
		var nodeJWK jws.JWK
		_ = json.Unmarshal(wire, &nodeJWK)
		c2, cerr2 := commitment.GetCommitment(&nodeJWK, alg)
		if cerr != nil || cerr2 != nil || c != c2 || c != ref.Commitment(alg, want) {
			w.violate("C16/commitment-differs", wit, "commitment at the wallet %q, at the node %q, reference %q", c, c2, ref.Commitment(alg, want))
		}
	}
	// corruptions of the wire JWK must be rejected
	n := 0
	// a genuine signature of the key: a corrupted JWK must not verify it (verified under the good JWK first, so that whatever the
	// verifier remembers about keys it has seen is in place)
	sigMsg := []byte("message signed by the key under test")
	goodSig := key.SignRaw(sigMsg)
	if verr := jwsutil.VerifySignature(jwk, goodSig, sigMsg); verr != nil {
		w.violate("C16/good-jwk-does-not-verify", wit, "a genuine signature does not verify under the key's own JWK: %v", verr)
	}
	var rawText []byte
	mustReject := func(class string, m map[string]any) {
		n++
		if st.Index > 0 && st.Index != n {
			return
		}
		w.T.Count("jwk_faults", 1)
		w.T.Fault("jwk_" + class)
		b := ref.JCS(m)
		if m == nil {
			b = rawText
		}
		// the JWK as a value, its members taken by their exact names (raw-text variants are only read back as text: Go's
		// encoding/json matches member names case-insensitively and takes the last duplicate, which is not the subject here)
		var asJWK jws.JWK
		if m != nil {
			str := func(k string) string { v, _ := m[k].(string); return v }
			asJWK = jws.JWK{Kty: str("kty"), Crv: str("crv"), X: str("x"), Y: str("y")}
		}
		_, rerr := readBack(b)
		verr := jwsutil.VerifySignature(&asJWK, goodSig, sigMsg)
		if key.Type == Ed25519 {
			_, gerr := jwsutil.GetED25519PublicKey(&asJWK)
			if gerr == nil {
				w.violate("C16/corrupt-jwk-accepted", wit+":"+class, "GetED25519PublicKey accepted a corrupted JWK (%s): %s", class, b)
			}
			return
		}
		if rerr == nil {
			w.violate("C16/corrupt-jwk-accepted", wit+":"+class, "JWK.UnmarshalJSON accepted a corrupted JWK (%s): %s", class, b)
		}
		if verr == nil && m != nil {
			w.violate("C16/corrupt-jwk-verifies", wit+":"+class, "VerifySignature succeeded under a corrupted JWK (%s)", class)
		}
	}
	edit := func(member string, f func(raw []byte) []byte) map[string]any {
		m := ref.Clone(want).(map[string]any)
		raw, _ := ref.UnB64(m[member].(string))
		m[member] = ref.B64(f(append([]byte{}, raw...)))
		return m
	}
	members := []string{"x", "y"}
	if key.Type == Ed25519 {
		members = []string{"x"}
	}
	for _, member := range members {
		member := member
		if key.Type != Ed25519 {
			for bit := 0; bit < key.Type.CoordSize()*8; bit++ {
				bit := bit
				mustReject("bit_flip_"+member, edit(member, func(raw []byte) []byte { raw[bit/8] ^= 1 << uint(bit%8); return raw }))
			}
		}
		mustReject("leading_byte_stripped_"+member, edit(member, func(raw []byte) []byte { return raw[1:] }))
		mustReject("zero_prepended_"+member, edit(member, func(raw []byte) []byte { return append([]byte{0}, raw...) }))
		mustReject("truncated_"+member, edit(member, func(raw []byte) []byte { return raw[:len(raw)-1] }))
		mustReject("empty_"+member, edit(member, func(raw []byte) []byte { return nil }))
		// the encoded text keeps its length but one character is one that lenient base64 decoders skip: fewer bytes come out
		enc, _ := want[member].(string)
		for _, pos := range []int{0, len(enc) / 2, len(enc) - 1} {
			for _, c := range []byte{'\n', '\r'} {
				if pos < 0 || pos >= len(enc) {
					continue
				}
				m := ref.Clone(want).(map[string]any)
				b := []byte(enc)
				b[pos] = c
				m[member] = string(b)
				mustReject("line_break_in_"+member, m)
			}
		}
	}
	if key.Type != Ed25519 {
		for _, crv := range []string{"P-256", "P-384", "P-521", "secp256k1"} {
			if crv == key.Type.Crv() {
				continue
			}
			m := ref.Clone(want).(map[string]any)
			m["crv"] = crv
			mustReject("wrong_crv", m)
		}
		m := ref.Clone(want).(map[string]any)
		m["x"], m["y"] = m["y"], m["x"]
		mustReject("coordinates_swapped", m)
		// JSON text level: member names that differ from kty / crv / x / y only by letter case are OTHER (unknown, ignored) members, and
		// a member must not occur twice - the real member is missing, off the curve or names another curve
		offY := append([]byte{}, key.Y...)
		offY[len(offY)-1] ^= 1
		q := func(s string) string { b, _ := json.Marshal(s); return string(b) }
		kty, crv, xs, ys, bad := q(key.Type.Kty()), q(key.Type.Crv()), q(ref.B64(key.X)), q(ref.B64(key.Y)), q(ref.B64(offY))
		otherCrv := q("P-256")
		if key.Type == P256 {
			otherCrv = q("P-384")
		}
		for _, txt := range []string{
			`{"kty":` + kty + `,"crv":` + crv + `,"x":` + xs + `,"y":` + bad + `,"Y":` + ys + `}`,
			`{"kty":` + kty + `,"crv":` + crv + `,"x":` + xs + `,"Y":` + ys + `}`,
			`{"kty":` + kty + `,"crv":` + crv + `,"X":` + xs + `,"y":` + ys + `}`,
			`{"kty":` + kty + `,"crv":` + otherCrv + `,"CRV":` + crv + `,"x":` + xs + `,"y":` + ys + `}`,
			`{"kty":` + kty + `,"Crv":` + crv + `,"x":` + xs + `,"y":` + ys + `}`,
			`{"KTY":` + kty + `,"crv":` + crv + `,"x":` + xs + `,"y":` + ys + `}`,
			`{"kty":` + kty + `,"crv":` + crv + `,"x":` + xs + `,"y":` + bad + `,"y":` + ys + `}`,
			`{"kty":` + kty + `,"crv":` + otherCrv + `,"crv":` + crv + `,"x":` + xs + `,"y":` + ys + `}`,
		} {
			rawText = []byte(txt)
			mustReject("member_name_case_or_duplicate", nil)
		}
		// the encoded TEXT of x and y with the boundary between them moved (their concatenation is intact)
		xt, yt := ref.B64(key.X), ref.B64(key.Y)
		for _, k := range []int{1, 4, len(yt)} {
			m := ref.Clone(want).(map[string]any)
			m["x"], m["y"] = xt+yt[:k], yt[k:]
			mustReject("coordinate_text_boundary_moved", m)
			m2 := ref.Clone(want).(map[string]any)
			m2["x"], m2["y"] = xt[:len(xt)-k], xt[len(xt)-k:]+yt
			mustReject("coordinate_text_boundary_moved", m2)
		}
		// the same point bytes with the boundary between x and y moved: each coordinate has the wrong width, their concatenation is intact
		xy := append(append([]byte{}, key.X...), key.Y...)
		n := key.Type.CoordSize()
		for _, cut := range []int{n + 1, n - 1, n + 2, n / 2, n + n/2, 2 * n, 0} {
			m := ref.Clone(want).(map[string]any)
			m["x"], m["y"] = ref.B64(xy[:cut]), ref.B64(xy[cut:])
			mustReject("coordinate_boundary_moved", m)
		}
	}
}

// headerSigner is a library signer whose protected headers carry further members.
type headerSigner struct {
	client.Signer
	extra map[string]any
}

func (h *headerSigner) Headers() jws.Headers {
	out := jws.Headers{}
	for k, v := range h.Signer.Headers() {
		out[k] = v
	}
	for k, v := range h.extra {
		out[k] = v
	}
	return out
}

// jwsHeaderVariants: registered header parameter names (RFC 7515 / RFC 7797) with values of the Go types a caller would use.
// Only combinations every conforming verifier must accept (b64=false always listed in crit, no critical parameter that a
// verifier may not understand) and only values that survive a JSON round trip unchanged (no numbers: see DESIGN section 10).
var jwsHeaderVariants = []map[string]any{
	{"typ": "JWT"},
	{"b64": true},
	{"b64": false, "crit": []string{"b64"}},
	{"b64": false, "crit": []any{"b64"}},
	{"b64": true, "crit": []string{"b64"}},
	{"cty": "application/json", "x5c": []string{"AAAA"}, "jku": "https://example.com/keys"},
}

// craftDoubleZeroSignature returns a payload (base plus a counter) and a valid fixed-width ECDSA signature of
// b64(header).b64(payload) under key whose r and s both start with a zero byte. Plain textbook ECDSA with a chosen nonce
// (harness-side: the library only ever sees the result).
func craftDoubleZeroSignature(key *Key, header, base []byte, unencoded bool) ([]byte, []byte) {
	c := key.Type.curve()
	n := c.Params().N
	size := key.Type.CoordSize()
	var k, r *big.Int
	for i := int64(1); ; i++ {
		k = new(big.Int).Add(new(big.Int).Rsh(n, 3), big.NewInt(i*7919))
		x, _ := c.ScalarBaseMult(k.Bytes()) //nolint:staticcheck
		r = new(big.Int).Mod(x, n)
		if r.Sign() != 0 && r.FillBytes(make([]byte, size))[0] == 0 {
			break
		}
	}
	kinv := new(big.Int).ModInverse(k, n)
	rd := new(big.Int).Mul(r, key.EC.D)
	for ctr := 0; ; ctr++ {
		payload := append(append([]byte{}, base...), []byte(fmt.Sprintf("#%d", ctr))...)
		input := ref.B64(header) + "." + ref.B64(payload)
		if unencoded {
			input = ref.B64(header) + "." + string(payload)
		}
		hash := key.Type.hash([]byte(input))
		z := new(big.Int).SetBytes(hash)
		if excess := len(hash)*8 - n.BitLen(); excess > 0 {
			z.Rsh(z, uint(excess))
		}
		s := new(big.Int).Add(z, rd)
		s.Mul(s, kinv).Mod(s, n)
		if s.Sign() == 0 {
			continue
		}
		sb := s.FillBytes(make([]byte, size))
		if sb[0] == 0 {
			return payload, append(r.FillBytes(make([]byte, size)), sb...)
		}
	}
}
