package sim

import (
	"container/heap"
	"fmt"
	"time"

	"github.com/trustbloc/sidetree-go/pkg/api/protocol"
	"github.com/trustbloc/sidetree-go/pkg/versions/1_0/doccomposer"
	"github.com/trustbloc/sidetree-go/pkg/versions/1_0/doctransformer/didtransformer"
	"github.com/trustbloc/sidetree-go/pkg/versions/1_0/operationapplier"
	"github.com/trustbloc/sidetree-go/pkg/versions/1_0/operationparser"

	"verif/sim/core"
	"verif/sim/ref"
)

// Epoch is the simulated wall clock at the start of a run (the synctest bubble's epoch, 2000-01-01 UTC).
const Epoch int64 = 946684800

type event struct {
	at  int64 // simulated seconds since Epoch
	seq uint64
	run func()
}

type evHeap []event

func (h evHeap) Len() int { return len(h) }
func (h evHeap) Less(i, j int) bool {
	if h[i].at != h[j].at {
		return h[i].at < h[j].at
	}
	return h[i].seq < h[j].seq
}
func (h evHeap) Swap(i, j int) { h[i], h[j] = h[j], h[i] }
func (h *evHeap) Push(x any)   { *h = append(*h, x.(event)) }
func (h *evHeap) Pop() any {
	old := *h
	n := len(old)
	x := old[n-1]
	*h = old[:n-1]
	return x
}

// World is one simulated deployment.
type World struct {
	Plan *Plan
	Pool *Pool
	T    *core.Trace
	Prop string
	now  int64 // simulated seconds since Epoch; the only clock actors read (plus their skew)
	seq  uint64
	q    evHeap
	step int // index of the plan step being executed (for violation reports)

	transformers map[int]*didtransformer.Transformer // C18: one per option set per run
	retainedRes  []retainedResolution
	svcProps     map[string]interface{} // C08: property map shared by services of client calls

	Proto    protocol.Protocol
	Parser   *operationparser.Parser // batch-side parser (observers, chain filter)
	Applier  *operationapplier.Applier
	Composer *doccomposer.DocumentComposer
	RefCfg   ref.Config

	Wallets   []*Wallet
	Intake    *Intake
	Ledger    *Ledger
	Observers []*Observer
	Model     *ModelTracker

	skew       map[string]int64 // per-actor clock skew
	commitSeen map[string]string

	// oracle switches (set by the profile)
	CheckFold       bool // C01
	CheckInputs     bool // C12
	CheckIntake     bool // C08: honest requests must be admitted
	CheckChain      bool // C04(b)
	CheckWindowArgs bool // C09: time validator arguments
	CheckResolve    bool // C18
}

// NewWorld builds the actors for a plan.
func NewWorld(p *Plan, pool *Pool, t *core.Trace) *World {
	w := &World{Plan: p, Pool: pool, T: t, Prop: p.Property, skew: map[string]int64{}, commitSeen: map[string]string{}}
	s := &p.Swarm
	w.Proto = protocol.Protocol{
		GenesisTime:            s.GenesisTime,
		// (the library gets its own copies of the configuration lists: the harness's view must not follow what it does to them)
		MultihashAlgorithms:    append([]uint(nil), s.HashAlgs...),
		MaxOperationCount:      s.MaxOpCount,
		MaxOperationSize:       s.MaxOpSize,
		MaxOperationHashLength: s.MaxHashLen,
		MaxDeltaSize:           s.MaxDeltaSize,
		Patches:                append([]string(nil), s.Patches...),
		SignatureAlgorithms:    append([]string(nil), s.SigAlgs...),
		KeyAlgorithms:          append([]string(nil), s.KeyAlgs...),
		MaxOperationTimeDelta:  s.TimeDelta,
		NonceSize:              s.NonceSize,
		// parameters the properties never depend on get distinctive values of their own
		MaxCasURILength:              77,
		CompressionAlgorithm:         "GZIP",
		MaxCoreIndexFileSize:         1000003,
		MaxProofFileSize:             2500009,
		MaxProvisionalIndexFileSize:  1000033,
		MaxChunkFileSize:             10000019,
		MaxMemoryDecompressionFactor: 3,
	}
	w.RefCfg = ref.Config{MaxTimeDelta: s.TimeDelta}
	// the parser the applier (and every batch-mode call) uses is configured with a time validator that refuses everything:
	// anchored operations are judged by their anchoring time alone, the node's clock has no say (C09)
	w.Parser = operationparser.New(w.Proto, operationparser.WithAnchorTimeValidator(&batchTimeValidator{w: w}))
	w.Composer = doccomposer.New()
	w.Applier = operationapplier.New(w.Proto, w.Parser, w.Composer)
	w.Model = newModelTracker(w)
	w.Intake = newIntake(w)
	w.Ledger = newLedger(w)
	n := s.Observers
	if n < 1 {
		n = 1
	}
	for i := 0; i < n; i++ {
		w.Observers = append(w.Observers, newObserver(w, i))
	}
	return w
}

// Now returns the simulated unix time as seen by an actor.
func (w *World) Now(actor string) int64 { return Epoch + w.now + w.skew[actor] }

// After schedules f in d simulated seconds.
func (w *World) After(d int64, f func()) {
	if d < 0 {
		d = 0
	}
	w.seq++
	heap.Push(&w.q, event{at: w.now + d, seq: w.seq, run: f})
}

// Advance runs all events up to and including now+secs, then sets the clock there. The real (bubble) clock is
// advanced with time.Sleep so that time.Now() inside the library agrees with the simulated clock.
func (w *World) Advance(secs int64) {
	until := w.now + secs
	for w.q.Len() > 0 && w.q[0].at <= until {
		ev := heap.Pop(&w.q).(event)
		if ev.at > w.now {
			time.Sleep(time.Duration(ev.at-w.now) * time.Second)
			w.now = ev.at
		}
		ev.run()
	}
	if until > w.now {
		time.Sleep(time.Duration(until-w.now) * time.Second)
		w.now = until
	}
}

// Quiesce runs until no event is left or the budget of simulated seconds is used.
func (w *World) Quiesce(budget int64) {
	end := w.now + budget
	for w.q.Len() > 0 && w.q[0].at <= end {
		w.Advance(w.q[0].at - w.now)
	}
}

func (w *World) wallet(i int) *Wallet {
	for len(w.Wallets) <= i {
		w.Wallets = append(w.Wallets, newWallet(w, len(w.Wallets)))
	}
	return w.Wallets[i]
}

func (w *World) observer(i int) *Observer {
	if len(w.Observers) == 0 {
		return nil
	}
	if i < 0 {
		i = -i
	}
	return w.Observers[i%len(w.Observers)]
}

func (w *World) violate(oracle, witness, format string, a ...any) {
	prop := w.Prop
	if len(oracle) >= 3 && oracle[0] == 'C' {
		prop = oracle[:3]
	}
	sig := oracle
	if witness != "" {
		sig += "/" + witness
	}
	w.T.Violate(&core.Violation{Property: prop, Oracle: oracle, Signature: sig, Detail: fmt.Sprintf(format, a...), Step: w.step})
}

// Run executes the world steps of the plan.
func (w *World) Run() {
	if w.CheckIntake {
		w.builderRefusals()
		w.clientRefusals()
	}
	for i := range w.Plan.Steps {
		w.step = i
		st := &w.Plan.Steps[i]
		w.T.Event("step %d %s", i, st.Op)
		switch st.Op {
		case SSubmit:
			w.wallet(st.Wallet).Submit(i, st)
		case STick:
			w.Advance(st.Secs)
		case SCrash:
			if o := w.observer(st.Node); o != nil {
				o.Crash()
			}
		case SRestart:
			if o := w.observer(st.Node); o != nil {
				o.Restart()
			}
		case SPartition:
			if o := w.observer(st.Node); o != nil {
				o.partitioned = true
				w.T.Fault("partition")
			}
		case SHeal:
			if o := w.observer(st.Node); o != nil {
				o.partitioned = false
				o.requestMissing()
			}
		case SDiskFault:
			if o := w.observer(st.Node); o != nil {
				o.disk.ArmFault(st.DiskKind, st.Offset)
			}
		case SClockJump:
			w.skew[st.Actor] += st.Secs
			w.T.Fault("clock_jump")
		case SResolve:
			if o := w.observer(st.Node); o != nil {
				o.Resolve(st)
			}
		case SCompose:
			w.execCompose(st)
		case SCall:
			w.execCall(st)
		case SLongForm:
			w.execLongForm(i, st)
		case SEnum:
			if st.Name == "tamper" {
				w.execTamper(i, st)
			} else {
				w.execEnum(i, st)
			}
		default:
			w.T.Event("unknown step kind %q ignored", st.Op)
		}
	}
	w.step = len(w.Plan.Steps)
	w.Finish()
}

// Finish stops faults, heals, restarts every node, lets the system settle and checks eventual agreement
// with the model within a bounded number of block intervals (bounded liveness) plus end-of-run oracles.
func (w *World) Finish() {
	for _, o := range w.Observers {
		o.partitioned = false
		o.disk.Disarm()
		if !o.up {
			o.Restart()
		}
	}
	// bounded liveness: once faults stop, every observer catches up within settleBlocks block intervals plus one
	// re-fetch round trip (1 s + the maximum network delay) per block it is behind
	const settleBlocks = 4
	w.Ledger.Flush()
	w.Advance(w.Plan.Swarm.BlockInterval * settleBlocks)
	rounds := len(w.Ledger.Blocks) + 2
	for i := 0; i < rounds; i++ {
		for _, o := range w.Observers {
			o.requestMissing()
		}
		w.Advance(int64(w.Plan.Swarm.NetMaxDelay) + 2)
	}
	w.Quiesce(w.Plan.Swarm.BlockInterval)
	w.T.SimSecs = w.now
	for _, o := range w.Observers {
		o.finalChecks()
	}
	w.Model.finalChecks()
	w.checkRetainedResolutions()
}

var _ = didtransformer.New

// batchTimeValidator is the time validator of the batch-side parser: it must never be consulted.
type batchTimeValidator struct{ w *World }

func (b *batchTimeValidator) Validate(from, until int64) error {
	b.w.T.Probe("time_validator_consulted_in_batch_mode")
	b.w.violate("C09/time-validator-consulted-for-anchored-operation", "", "the configured time validator was handed (%d, %d) while an anchored operation was parsed (batch mode)", from, until)
	return fmt.Errorf("operation expired")
}
