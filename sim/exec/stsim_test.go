package exec

import (
	"encoding/json"
	"fmt"
	"os"
	"sort"
	"testing"
	"testing/cryptotest"
	"testing/synctest"
	"time"

	"verif/sim/core"
	"verif/sim/sim"
)

// Args is passed in the STSIM environment variable (JSON).
type Args struct {
	Mode    string `json:"mode"` // batch | replay | cases
	Prop    string `json:"prop"`
	Tier    string `json:"tier"`
	Seed    uint64 `json:"seed"`
	Worker  int    `json:"worker"`
	Workers int    `json:"workers"`
	Out     string `json:"out"`
	Plan    string `json:"plan"`
	MaxViol int    `json:"maxViol"`
	Verbose bool   `json:"verbose"`
	Recheck int    `json:"recheck"` // re-execute every n-th run and compare fingerprints (0: default 50)
	Limit   int    `json:"limit"`   // cap on cases (0 = all)
	Skip    []int  `json:"skip"`    // case indices to skip (they killed an earlier worker process)
	Only    []int  `json:"only"`    // run exactly these case indices (cold starts: one process per case)
	Case    int    `json:"case"`    // genplan: case index
}

// Found is a violation with its (minimised) plan.
type Found struct {
	Violation   *core.Violation `json:"violation"`
	Plan        *sim.Plan       `json:"plan"`
	Original    int             `json:"originalSteps"`
	Fingerprint string          `json:"fingerprint"`
}

// Result is what a worker reports.
type Result struct {
	Prop     string            `json:"prop"`
	Runs     int               `json:"runs"`
	Cases    int               `json:"cases"`
	Counts   map[string]uint64 `json:"counts"`
	Probes   map[string]uint64 `json:"probes"`
	Faults   map[string]uint64 `json:"faults"`
	Distinct []string          `json:"distinct"`
	Found    []*Found          `json:"found"`
	SimSecs  int64             `json:"simSecs"`
	WallS    float64           `json:"wallS"`
	Rechecks int               `json:"rechecks"`
	Diverged []string          `json:"diverged"`
	Samples  []any             `json:"samples"`
	Events   uint64            `json:"events"`
	Error    string            `json:"error,omitempty"`
}

var pool *sim.Pool

func runPlan(t *testing.T, p *sim.Plan, verbose bool) *core.Trace {
	var tr *core.Trace
	t.Run("run", func(t *testing.T) {
		cryptotest.SetGlobalRandom(t, p.CryptoSeed)
		synctest.Test(t, func(t *testing.T) {
			tr = sim.ExecPlan(p, pool, verbose)
		})
	})
	return tr
}

func hasSig(tr *core.Trace, sig string) bool {
	if tr == nil {
		return false
	}
	for _, v := range tr.Violations {
		if v.Signature == sig {
			return true
		}
	}
	return false
}

// shrink minimises the plan while the same violation signature persists.
func shrink(t *testing.T, p *sim.Plan, sig string) *sim.Plan {
	best := p.Clone()
	test := func(steps []sim.Step) bool {
		q := best.Clone()
		q.Steps = steps
		return hasSig(runPlan(t, q, false), sig)
	}
	best.Steps = core.DDMin(best.Steps, test, 400)
	// per-plan simplification: no unrelated environment faults, one observer
	try := func(mut func(q *sim.Plan)) {
		q := best.Clone()
		mut(q)
		if hasSig(runPlan(t, q, false), sig) {
			best = q
		}
	}
	try(func(q *sim.Plan) { q.Swarm.NetDropPct, q.Swarm.NetDupPct, q.Swarm.NetMaxDelay = 0, 0, 0 })
	try(func(q *sim.Plan) { q.Swarm.Observers = 1 })
	for i := range best.Steps {
		i := i
		try(func(q *sim.Plan) { q.Steps[i].Delay, q.Steps[i].Dup, q.Steps[i].RespLost = 0, 0, false })
		try(func(q *sim.Plan) { q.Steps[i].NonceUpd, q.Steps[i].NonceRec, q.Steps[i].Kid = false, false, "" })
		// fewer patches: drop any single patch while the violation persists
		for k := 0; k < len(best.Steps[i].Patches) && len(best.Steps[i].Patches) > 1; {
			n, kk := len(best.Steps[i].Patches), k
			try(func(q *sim.Plan) {
				ps := q.Steps[i].Patches
				q.Steps[i].Patches = append(append([]any{}, ps[:kk]...), ps[kk+1:]...)
			})
			if len(best.Steps[i].Patches) == n {
				k++
			}
		}
	}
	// RFC 6902 lists inside ietf-json-patch patches: drop single operations
	for i := range best.Steps {
		for pi := range best.Steps[i].Patches {
			for {
				pm, _ := best.Steps[i].Patches[pi].(map[string]any)
				ops, _ := pm["patches"].([]any)
				if pm["action"] != "ietf-json-patch" || len(ops) < 2 {
					break
				}
				reduced := false
				for k := range ops {
					i, pi, k := i, pi, k
					before := len(ops)
					try(func(q *sim.Plan) {
						qm := q.Steps[i].Patches[pi].(map[string]any)
						qo := qm["patches"].([]any)
						qm["patches"] = append(append([]any{}, qo[:k]...), qo[k+1:]...)
					})
					nm, _ := best.Steps[i].Patches[pi].(map[string]any)
					if no, _ := nm["patches"].([]any); len(no) < before {
						reduced = true
						break
					}
				}
				if !reduced {
					break
				}
			}
		}
	}
	return best
}

func TestSim(t *testing.T) {
	raw := os.Getenv("STSIM")
	if raw == "" {
		t.Skip("STSIM not set")
	}
	var a Args
	if err := json.Unmarshal([]byte(raw), &a); err != nil {
		t.Fatalf("STSIM: %v", err)
	}
	if a.Workers < 1 {
		a.Workers = 1
	}
	if a.MaxViol == 0 {
		a.MaxViol = 3
	}
	if a.Recheck == 0 {
		a.Recheck = 50
	}
	start := time.Now()
	pool = sim.PoolFor(sim.DefaultPool)
	res := &Result{Prop: a.Prop, Counts: map[string]uint64{}, Probes: map[string]uint64{}, Faults: map[string]uint64{}}
	defer func() {
		res.WallS = time.Since(start).Seconds()
		b, _ := json.Marshal(res)
		if a.Out != "" {
			if err := os.WriteFile(a.Out, b, 0o644); err != nil {
				t.Fatalf("write result: %v", err)
			}
		} else {
			fmt.Println(string(b))
		}
	}()

	switch a.Mode {
	case "genplan":
		prop := sim.Properties[a.Prop]
		if prop == nil {
			t.Fatalf("unknown property %s", a.Prop)
		}
		cases := prop.Cases(a.Seed, a.Tier)
		p := prop.Gen(cases[a.Case], pool)
		if err := os.WriteFile(a.Out, p.JSON(), 0o644); err != nil {
			t.Fatal(err)
		}
		a.Out = os.DevNull
		return
	case "meta":
		prop := sim.Properties[a.Prop]
		if prop == nil {
			t.Fatalf("unknown property %s", a.Prop)
		}
		var cold []int
		if prop.Cold != nil && a.Tier != "" {
			for i, c := range prop.Cases(a.Seed, a.Tier) {
				if prop.Cold(c) {
					cold = append(cold, i)
				}
			}
		}
		b, _ := json.Marshal(map[string]any{"level": prop.Level, "rule": prop.Rule, "evalCounter": prop.EvalCounter,
			"components": prop.Components, "assumptions": prop.Assumptions, "requiredProbes": prop.RequiredProbes, "coldCases": cold})
		if err := os.WriteFile(a.Out, b, 0o644); err != nil {
			t.Fatal(err)
		}
		a.Out = os.DevNull
		return
	case "fingerprints":
		prop := sim.Properties[a.Prop]
		if prop == nil {
			t.Fatalf("unknown property %s", a.Prop)
		}
		cases := prop.Cases(a.Seed, a.Tier)
		step := len(cases)/a.Limit + 1
		var fps []string
		for i := 0; i < len(cases) && len(fps) < a.Limit; i += step {
			tr := runPlan(t, prop.Gen(cases[i], pool), false)
			fps = append(fps, tr.Fingerprint())
		}
		b, _ := json.Marshal(map[string]any{"fingerprints": fps})
		if err := os.WriteFile(a.Out, b, 0o644); err != nil {
			t.Fatal(err)
		}
		a.Out = os.DevNull
		return
	case "replay":
		b, err := os.ReadFile(a.Plan)
		if err != nil {
			res.Error = err.Error()
			return
		}
		var rf struct {
			Plan      *sim.Plan `json:"plan"`
			Signature string    `json:"signature"`
		}
		if err := json.Unmarshal(b, &rf); err != nil || rf.Plan == nil {
			res.Error = fmt.Sprintf("bad replay file: %v", err)
			return
		}
		p, _ := sim.PlanFromJSON(rf.Plan.JSON())
		tr := runPlan(t, p, a.Verbose)
		merge(res, tr)
		res.Runs = 1
		for _, v := range tr.Violations {
			res.Found = append(res.Found, &Found{Violation: v, Plan: p, Fingerprint: tr.Fingerprint()})
		}
		if a.Verbose {
			for _, l := range tr.Log {
				fmt.Println(l)
			}
		}
		return
	}

	prop := sim.Properties[a.Prop]
	if prop == nil {
		res.Error = "unknown property " + a.Prop
		return
	}
	if prop.Pool != nil {
		pool = sim.PoolFor(prop.Pool(a.Tier))
	}
	cases := prop.Cases(a.Seed, a.Tier)
	if a.Limit > 0 && len(cases) > a.Limit {
		cases = cases[:a.Limit]
	}
	res.Cases = len(cases)
	distinct := map[string]struct{}{}
	seenSig := map[string]bool{}
	skip := map[int]bool{}
	for _, s := range a.Skip {
		skip[s] = true
	}
	only := map[int]bool{}
	for _, o := range a.Only {
		only[o] = true
	}
	for i, c := range cases {
		if skip[i] {
			continue
		}
		if len(only) > 0 {
			if !only[i] {
				continue
			}
		} else if i%a.Workers != a.Worker || (prop.Cold != nil && prop.Cold(c)) {
			continue
		}
		if a.Out != "" {
			// progress marker: tells the driver which case was running if this process is killed by a fatal error
			_ = os.WriteFile(a.Out+".progress", []byte(fmt.Sprint(i)), 0o644)
		}
		p := prop.Gen(c, pool)
		if p == nil {
			continue
		}
		if prop.Pool != nil {
			p.Pool = prop.Pool(a.Tier)
		}
		tr := runPlan(t, p, false)
		if tr == nil {
			res.Error = fmt.Sprintf("run of case %d produced no trace", i)
			return
		}
		res.Runs++
		merge(res, tr)
		for k := range tr.Distinct {
			distinct[k] = struct{}{}
		}
		if len(res.Samples) < 2 && len(tr.Violations) == 0 && len(tr.Samples) > 0 {
			res.Samples = append(res.Samples, tr.Samples[0])
		}
		if res.Runs%a.Recheck == 1 && !prop.NoRecheck {
			tr2 := runPlan(t, p, false)
			res.Rechecks++
			if tr2 == nil || tr2.Fingerprint() != tr.Fingerprint() {
				res.Diverged = append(res.Diverged, fmt.Sprintf("case %d seed %d variant %d", i, c.Seed, c.Variant))
				if os.Getenv("STSIM_DEBUG") != "" && tr2 != nil {
					fmt.Fprintf(os.Stderr, "DIVERGED case %d\n first:  %v\n second: %v\n", i, tr.Tail, tr2.Tail)
				}
			}
		}
		for vi, v := range tr.Violations {
			if vi > 0 || seenSig[v.Signature] {
				// later violations of a run are usually consequences of the first one
				continue
			}
			seenSig[v.Signature] = true
			small := shrink(t, p, v.Signature)
			trS := runPlan(t, small, false)
			var vs *core.Violation
			for _, x := range trS.Violations {
				if x.Signature == v.Signature {
					vs = x
					break
				}
			}
			if vs == nil {
				vs, small = v, p
				trS = tr
			}
			res.Found = append(res.Found, &Found{Violation: vs, Plan: small, Original: len(p.Steps), Fingerprint: trS.Fingerprint()})
		}
		if len(res.Found) >= a.MaxViol {
			break
		}
	}
	for k := range distinct {
		res.Distinct = append(res.Distinct, k)
	}
	sort.Strings(res.Distinct)
}

func merge(res *Result, tr *core.Trace) {
	for k, v := range tr.Counts {
		res.Counts[k] += v
	}
	for k, v := range tr.Probes {
		res.Probes[k] += v
	}
	for k, v := range tr.Faults {
		res.Faults[k] += v
	}
	res.SimSecs += tr.SimSecs
	res.Events += tr.Events
}
