import sys,json
for l in sys.stdin:
    if l.startswith('{'):
        r=json.loads(l)
        print('runs',r['runs'],'cases',r['cases'],'wall',round(r['wallS'],1),'distinct',len(r['distinct'] or []), 'err', r.get('error'))
        print('counts',r['counts'])
        print('probes',r['probes']); print('faults',r['faults']); print('diverged',r['diverged'])
        for f in r['found'] or []:
            print('VIOL',f['violation']['signature'],'|',f['violation']['detail'][:600]); print('   steps',len(f['plan']['steps']),'orig',f.get('originalSteps'))
            if '-v' in sys.argv: print(json.dumps(f['plan'])[:3000])
    else: print(l.rstrip()[:300])
