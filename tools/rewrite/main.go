// Command rewrite instruments a scratch copy of trustbloc/sidetree-go for controlled goroutine schedules (DESIGN 1.5).
// It never touches /repo: the driver hands it the copy's directory.
//
//   - adds package pkg/simrt (no-op unless a scheduler is installed);
//   - X.Lock() / X.RLock() on sync.Mutex / sync.RWMutex  ->  simrt.Lock(func() bool { return X.TryLock() }, site)
//   - X.Unlock() / X.RUnlock()                            ->  X.Unlock(); simrt.Unlocked(site)   (also inside defer)
//   - simrt.Yield("pkg.Func") as first statement of every function of pkg/** (coarse pre-emption points).
//
// Because the rewrite is regenerated from the working tree on every build, a change that deletes a lock, adds a new
// one or adds an unguarded package-level cache is instrumented automatically.
package main

import (
	"bytes"
	"flag"
	"fmt"
	"go/ast"
	"go/format"
	"go/token"
	"go/types"
	"os"
	"path/filepath"
	"strconv"
	"strings"

	"golang.org/x/tools/go/ast/astutil"
	"golang.org/x/tools/go/packages"
)

const simrtImport = "github.com/trustbloc/sidetree-go/pkg/simrt"

const simrtSource = `// Package simrt is inserted by /verif/tools/rewrite into a scratch copy of the repository. Every function is a
// no-op (or a plain spin on TryLock) unless a scheduler is installed by the simulator.
package simrt

import (
	"cmp"
	"runtime"
	"slices"
	"sync/atomic"
)

// Hook is implemented by the simulator's cooperative scheduler.
type Hook interface {
	Yield(site string)
	Lock(try func() bool, site string)
	Unlocked(site string)
	Blocked(site string)
}

type holder struct{ h Hook }

var hook atomic.Pointer[holder]

// Install sets the scheduler (nil removes it).
func Install(h Hook) {
	if h == nil {
		hook.Store(nil)
		return
	}
	hook.Store(&holder{h})
}

func Yield(site string) {
	if p := hook.Load(); p != nil {
		p.h.Yield(site)
	}
}

func Lock(try func() bool, site string) {
	if p := hook.Load(); p != nil {
		p.h.Lock(try, site)
		return
	}
	for !try() {
		runtime.Gosched()
	}
}

func Unlocked(site string) {
	if p := hook.Load(); p != nil {
		p.h.Unlocked(site)
	}
}

// Blocked parks the calling task because what it waits for (a value on a channel, room in one) is not there yet; it returns
// when the scheduler lets the task try again. Without a scheduler it yields the processor.
func Blocked(site string) {
	if p := hook.Load(); p != nil {
		p.h.Blocked(site)
		return
	}
	runtime.Gosched()
}

// Recv is <-ch as a polling loop (the rewriter replaces receive expressions outside select statements): under the cooperative
// scheduler a task must never block inside the Go runtime, where nobody could hand the baton on.
func Recv[T any](ch <-chan T, site string) (v T, ok bool) {
	Yield("sp " + site)
	for {
		select {
		case v, ok = <-ch:
			return v, ok
		default:
			Blocked(site)
		}
	}
}

// Recv1 is the single-value form of Recv.
func Recv1[T any](ch <-chan T, site string) T {
	v, _ := Recv(ch, site)
	return v
}

// Send is ch <- v as a polling loop.
func Send[T any](ch chan<- T, v T, site string) {
	Yield("sp " + site)
	for {
		select {
		case ch <- v:
			return
		default:
			Blocked(site)
		}
	}
}

// SortedKeys returns the keys of m in ascending order: the rewriter turns ranges over maps into ranges over
// sorted keys so that Go's randomised map iteration order cannot perturb a schedule (or a replay).
func SortedKeys[K cmp.Ordered, V any](m map[K]V) []K {
	keys := make([]K, 0, len(m))
	for k := range m {
		keys = append(keys, k)
	}
	slices.Sort(keys)
	return keys
}
`

func main() {
	dir := flag.String("dir", "", "root of the scratch copy of the repository")
	flag.Parse()
	if *dir == "" {
		fmt.Fprintln(os.Stderr, "rewrite: -dir required")
		os.Exit(2)
	}
	if err := os.MkdirAll(filepath.Join(*dir, "pkg", "simrt"), 0o755); err != nil {
		fatal(err)
	}
	if err := os.WriteFile(filepath.Join(*dir, "pkg", "simrt", "simrt.go"), []byte(simrtSource), 0o644); err != nil {
		fatal(err)
	}
	cfg := &packages.Config{Mode: packages.NeedName | packages.NeedFiles | packages.NeedSyntax | packages.NeedTypes | packages.NeedTypesInfo | packages.NeedImports | packages.NeedDeps,
		Dir: *dir, Env: append(os.Environ(), "GOFLAGS=-mod=mod", "GOPROXY=off", "GOSUMDB=off")}
	pkgs, err := packages.Load(cfg, "./pkg/...")
	if err != nil {
		fatal(err)
	}
	files, locks, yields, maps := 0, 0, 0, 0
	for _, pkg := range pkgs {
		if len(pkg.Errors) > 0 {
			fatal(fmt.Errorf("package %s does not type-check: %v", pkg.PkgPath, pkg.Errors[0]))
		}
		if strings.HasSuffix(pkg.PkgPath, "/pkg/simrt") || strings.Contains(pkg.PkgPath, "/mocks") {
			continue
		}
		for _, f := range pkg.Syntax {
			name := pkg.Fset.Position(f.Pos()).Filename
			if strings.HasSuffix(name, "_test.go") || strings.HasSuffix(name, ".gen.go") || !strings.HasPrefix(name, *dir) {
				continue
			}
			rw := &rewriter{pkg: pkg, fset: pkg.Fset, short: shortPkg(pkg.PkgPath), skip: map[*ast.BlockStmt]bool{}}
			rw.file(f)
			if !rw.changed {
				continue
			}
			astutil.AddImport(pkg.Fset, f, simrtImport)
			var buf bytes.Buffer
			if err := format.Node(&buf, pkg.Fset, f); err != nil {
				fatal(fmt.Errorf("%s: %v", name, err))
			}
			if err := os.WriteFile(name, buf.Bytes(), 0o644); err != nil {
				fatal(err)
			}
			files++
			locks += rw.locks
			yields += rw.yields
			maps += rw.mapN
		}
	}
	fmt.Printf("rewrite: %d files, %d lock sites, %d yield points, %d map ranges made deterministic\n", files, locks, yields, maps)
}

func fatal(err error) {
	fmt.Fprintln(os.Stderr, "rewrite:", err)
	os.Exit(2)
}

func shortPkg(path string) string {
	if i := strings.Index(path, "/pkg/"); i >= 0 {
		return path[i+5:]
	}
	return path
}

type rewriter struct {
	mapN    int
	skip    map[*ast.BlockStmt]bool
	pkg     *packages.Package
	fset    *token.FileSet
	short   string
	changed bool
	locks   int
	yields  int
	syncs   int
	chans   int
}

// mutexMethod reports which sync.Mutex / sync.RWMutex method a call invokes ("" if none).
func (rw *rewriter) mutexMethod(call *ast.CallExpr) (recv ast.Expr, method string) {
	sel, ok := call.Fun.(*ast.SelectorExpr)
	if !ok || len(call.Args) != 0 {
		return nil, ""
	}
	obj, ok := rw.pkg.TypesInfo.Uses[sel.Sel].(*types.Func)
	if !ok || obj.Pkg() == nil || obj.Pkg().Path() != "sync" {
		return nil, ""
	}
	sig, ok := obj.Type().(*types.Signature)
	if !ok || sig.Recv() == nil {
		return nil, ""
	}
	t := sig.Recv().Type()
	if p, isPtr := t.(*types.Pointer); isPtr {
		t = p.Elem()
	}
	named, ok := t.(*types.Named)
	if !ok || (named.Obj().Name() != "Mutex" && named.Obj().Name() != "RWMutex") {
		return nil, ""
	}
	switch obj.Name() {
	case "Lock", "RLock", "Unlock", "RUnlock":
		return sel.X, obj.Name()
	}
	return nil, ""
}

func (rw *rewriter) site(pos token.Pos) *ast.BasicLit {
	p := rw.fset.Position(pos)
	return &ast.BasicLit{Kind: token.STRING, Value: strconv.Quote(fmt.Sprintf("%s/%s:%d", rw.short, filepath.Base(p.Filename), p.Line))}
}

// gwSite names a yield point placed right after a write to package-level state ("gw": global write). Lazy
// initialisation, caches and counters live there; the scheduler leaves the writer at such a point far more often than elsewhere.
func (rw *rewriter) gwSite(pos token.Pos) *ast.BasicLit {
	p := rw.fset.Position(pos)
	return &ast.BasicLit{Kind: token.STRING, Value: strconv.Quote(fmt.Sprintf("gw %s/%s:%d", rw.short, filepath.Base(p.Filename), p.Line))}
}

// writesPackageVar: does one of the assigned expressions denote (an element / field of) a package-level variable of this package?
func (rw *rewriter) writesPackageVar(lhs []ast.Expr) bool {
	for _, e := range lhs {
		for {
			switch x := e.(type) {
			case *ast.IndexExpr:
				e = x.X
				continue
			case *ast.SelectorExpr:
				if id, ok := x.X.(*ast.Ident); ok {
					if _, isPkg := rw.pkg.TypesInfo.Uses[id].(*types.PkgName); isPkg {
						e = nil
						break
					}
				}
				e = x.X
				continue
			case *ast.StarExpr:
				e = x.X
				continue
			case *ast.ParenExpr:
				e = x.X
				continue
			}
			break
		}
		id, ok := e.(*ast.Ident)
		if !ok || id.Name == "_" {
			continue
		}
		v, ok := rw.pkg.TypesInfo.Uses[id].(*types.Var)
		if ok && v.Pkg() == rw.pkg.Types && v.Parent() == rw.pkg.Types.Scope() {
			return true
		}
	}
	return false
}

func simrtCall(fn string, args ...ast.Expr) *ast.CallExpr {
	return &ast.CallExpr{Fun: &ast.SelectorExpr{X: ast.NewIdent("simrt"), Sel: ast.NewIdent(fn)}, Args: args}
}

// lockCall builds simrt.Lock(func() bool { return X.TryLock() }, site).
func (rw *rewriter) lockCall(recv ast.Expr, method string, pos token.Pos) *ast.CallExpr {
	try := "TryLock"
	if method == "RLock" {
		try = "TryRLock"
	}
	fn := &ast.FuncLit{
		Type: &ast.FuncType{Params: &ast.FieldList{}, Results: &ast.FieldList{List: []*ast.Field{{Type: ast.NewIdent("bool")}}}},
		Body: &ast.BlockStmt{List: []ast.Stmt{&ast.ReturnStmt{Results: []ast.Expr{
			&ast.CallExpr{Fun: &ast.SelectorExpr{X: recv, Sel: ast.NewIdent(try)}}}}}},
	}
	rw.locks++
	rw.changed = true
	return simrtCall("Lock", fn, rw.site(pos))
}

// syncPoint reports whether evaluating the statement itself (not the blocks nested in it) performs a synchronisation
// operation other than a mutex lock / unlock: a call into sync or sync/atomic (sync.Map, Once, WaitGroup, Pool, Cond,
// atomic.*), a channel send / receive / close. For data-race-free code these are the only places where another thread's
// actions can become visible, so they are where the scheduler must be able to switch.
func (rw *rewriter) syncPoint(s ast.Stmt) bool {
	found := false
	var visit func(n ast.Node) bool
	visit = func(n ast.Node) bool {
		if found {
			return false
		}
		switch x := n.(type) {
		case *ast.BlockStmt, *ast.FuncLit, *ast.CaseClause, *ast.CommClause:
			return false
		case *ast.SendStmt:
			found = true
		case *ast.UnaryExpr:
			if x.Op == token.ARROW {
				found = true
			}
		case *ast.CallExpr:
			if id, ok := x.Fun.(*ast.Ident); ok && id.Name == "close" {
				if _, isBuiltin := rw.pkg.TypesInfo.Uses[id].(*types.Builtin); isBuiltin {
					found = true
				}
			}
			var fn *types.Func
			switch f := x.Fun.(type) {
			case *ast.SelectorExpr:
				fn, _ = rw.pkg.TypesInfo.Uses[f.Sel].(*types.Func)
			case *ast.Ident:
				fn, _ = rw.pkg.TypesInfo.Uses[f].(*types.Func)
			}
			if fn != nil && fn.Pkg() != nil && (fn.Pkg().Path() == "sync" || fn.Pkg().Path() == "sync/atomic") {
				if _, m := rw.mutexMethod(x); m == "" {
					found = true
				}
			}
		}
		return !found
	}
	switch st := s.(type) {
	case *ast.IfStmt:
		if st.Init != nil {
			ast.Inspect(st.Init, visit)
		}
		ast.Inspect(st.Cond, visit)
	case *ast.ForStmt, *ast.RangeStmt, *ast.SwitchStmt, *ast.TypeSwitchStmt, *ast.SelectStmt, *ast.BlockStmt, *ast.LabeledStmt, *ast.DeferStmt, *ast.GoStmt:
		// loops / switches: their bodies are statement lists of their own; deferred calls run elsewhere
	default:
		ast.Inspect(s, visit)
	}
	return found
}

func (rw *rewriter) stmts(list []ast.Stmt) []ast.Stmt {
	var out []ast.Stmt
	for _, s := range list {
		if rw.syncPoint(s) {
			p := rw.fset.Position(s.Pos())
			out = append(out, &ast.ExprStmt{X: simrtCall("Yield", &ast.BasicLit{Kind: token.STRING,
				Value: strconv.Quote(fmt.Sprintf("sp %s/%s:%d", rw.short, filepath.Base(p.Filename), p.Line))})})
			rw.yields++
			rw.syncs++
			rw.changed = true
		}
		switch st := s.(type) {
		case *ast.ExprStmt:
			if call, ok := st.X.(*ast.CallExpr); ok {
				recv, m := rw.mutexMethod(call)
				switch m {
				case "Lock", "RLock":
					out = append(out, &ast.ExprStmt{X: rw.lockCall(recv, m, call.Pos())})
					continue
				case "Unlock", "RUnlock":
					rw.changed = true
					out = append(out, st, &ast.ExprStmt{X: simrtCall("Unlocked", rw.site(call.Pos()))})
					continue
				}
			}
		case *ast.AssignStmt:
			if rw.writesPackageVar(st.Lhs) {
				out = append(out, st, &ast.ExprStmt{X: simrtCall("Yield", rw.gwSite(st.Pos()))})
				rw.yields++
				rw.changed = true
				continue
			}
		case *ast.IncDecStmt:
			if rw.writesPackageVar([]ast.Expr{st.X}) {
				out = append(out, st, &ast.ExprStmt{X: simrtCall("Yield", rw.gwSite(st.Pos()))})
				rw.yields++
				rw.changed = true
				continue
			}
		case *ast.DeferStmt:
			recv, m := rw.mutexMethod(st.Call)
			if m == "Unlock" || m == "RUnlock" {
				rw.changed = true
				body := &ast.BlockStmt{List: []ast.Stmt{&ast.ExprStmt{X: st.Call}, &ast.ExprStmt{X: simrtCall("Unlocked", rw.site(st.Call.Pos()))}}}
				rw.skip[body] = true
				out = append(out, &ast.DeferStmt{Call: &ast.CallExpr{Fun: &ast.FuncLit{Type: &ast.FuncType{Params: &ast.FieldList{}}, Body: body}}})
				_ = recv
				continue
			}
		}
		out = append(out, s)
	}
	return out
}

// mapRange rewrites `for k, v := range m` over a map with ordered keys into a range over the sorted keys.
func (rw *rewriter) mapRange(rs *ast.RangeStmt) {
	if rs.Key == nil {
		return
	}
	tv, ok := rw.pkg.TypesInfo.Types[rs.X]
	if !ok {
		return
	}
	mt, ok := tv.Type.Underlying().(*types.Map)
	if !ok {
		return
	}
	if b, isBasic := mt.Key().Underlying().(*types.Basic); !isBasic || b.Info()&(types.IsOrdered) == 0 {
		return
	}
	switch rs.X.(type) {
	case *ast.Ident, *ast.SelectorExpr:
	default:
		return // the map expression is evaluated more than once after the rewrite: keep calls as they are
	}
	tok := rs.Tok
	if tok != token.DEFINE && tok != token.ASSIGN {
		return
	}
	rw.mapN++
	kname := fmt.Sprintf("simrtKey%d", rw.mapN)
	var pre []ast.Stmt
	if id, isIdent := rs.Key.(*ast.Ident); !isIdent || id.Name != "_" {
		pre = append(pre, &ast.AssignStmt{Lhs: []ast.Expr{rs.Key}, Tok: tok, Rhs: []ast.Expr{ast.NewIdent(kname)}})
		if tok == token.DEFINE {
			// the key variable may be unused in the body only if it was "_": keep the compiler happy
			pre = append(pre, &ast.AssignStmt{Lhs: []ast.Expr{ast.NewIdent("_")}, Tok: token.ASSIGN, Rhs: []ast.Expr{rs.Key}})
		}
	}
	okName := fmt.Sprintf("simrtOK%d", rw.mapN)
	idx := &ast.IndexExpr{X: rs.X, Index: ast.NewIdent(kname)}
	if rs.Value != nil {
		if id, isIdent := rs.Value.(*ast.Ident); !isIdent || id.Name != "_" {
			if tok == token.DEFINE {
				pre = append(pre, &ast.AssignStmt{Lhs: []ast.Expr{rs.Value, ast.NewIdent(okName)}, Tok: token.DEFINE, Rhs: []ast.Expr{idx}})
				pre = append(pre, &ast.AssignStmt{Lhs: []ast.Expr{ast.NewIdent("_")}, Tok: token.ASSIGN, Rhs: []ast.Expr{rs.Value}})
			} else {
				pre = append(pre, &ast.DeclStmt{Decl: &ast.GenDecl{Tok: token.VAR, Specs: []ast.Spec{&ast.ValueSpec{Names: []*ast.Ident{ast.NewIdent(okName)}, Type: ast.NewIdent("bool")}}}})
				pre = append(pre, &ast.AssignStmt{Lhs: []ast.Expr{rs.Value, ast.NewIdent(okName)}, Tok: token.ASSIGN, Rhs: []ast.Expr{idx}})
			}
			pre = append(pre, &ast.IfStmt{Cond: &ast.UnaryExpr{Op: token.NOT, X: ast.NewIdent(okName)}, Body: &ast.BlockStmt{List: []ast.Stmt{&ast.BranchStmt{Tok: token.CONTINUE}}}})
		}
	}
	rs.Key, rs.Value, rs.Tok = ast.NewIdent("_"), ast.NewIdent(kname), token.DEFINE
	rs.X = simrtCall("SortedKeys", rs.X)
	rs.Body.List = append(pre, rs.Body.List...)
	rw.changed = true
}

func (rw *rewriter) file(f *ast.File) {
	ast.Inspect(f, func(n ast.Node) bool {
		if rs, ok := n.(*ast.RangeStmt); ok {
			rw.mapRange(rs)
		}
		return true
	})
	// channel receives / sends outside select statements become polling loops (simrt.Recv / Recv1 / Send)
	inSelect := map[ast.Node]bool{}
	ast.Inspect(f, func(n ast.Node) bool {
		if cc, ok := n.(*ast.CommClause); ok && cc.Comm != nil {
			ast.Inspect(cc.Comm, func(m ast.Node) bool {
				switch m.(type) {
				case *ast.UnaryExpr, *ast.SendStmt:
					inSelect[m] = true
				}
				return true
			})
		}
		return true
	})
	isChan := func(e ast.Expr) bool {
		tv, ok := rw.pkg.TypesInfo.Types[e]
		if !ok {
			return false
		}
		_, isCh := tv.Type.Underlying().(*types.Chan)
		return isCh
	}
	astutil.Apply(f, func(c *astutil.Cursor) bool {
		switch x := c.Node().(type) {
		case *ast.AssignStmt:
			if len(x.Lhs) == 2 && len(x.Rhs) == 1 {
				if u, ok := x.Rhs[0].(*ast.UnaryExpr); ok && u.Op == token.ARROW && !inSelect[u] && isChan(u.X) {
					x.Rhs[0] = simrtCall("Recv", u.X, rw.site(u.Pos()))
					inSelect[u] = true // handled
					rw.chans++
					rw.changed = true
				}
			}
		case *ast.UnaryExpr:
			if x.Op == token.ARROW && !inSelect[x] && isChan(x.X) {
				c.Replace(simrtCall("Recv1", x.X, rw.site(x.Pos())))
				rw.chans++
				rw.changed = true
			}
		case *ast.SendStmt:
			if !inSelect[x] && isChan(x.Chan) {
				c.Replace(&ast.ExprStmt{X: simrtCall("Send", x.Chan, x.Value, rw.site(x.Pos()))})
				rw.chans++
				rw.changed = true
			}
		}
		return true
	}, nil)
	// statement lists: lock / unlock calls
	ast.Inspect(f, func(n ast.Node) bool {
		switch b := n.(type) {
		case *ast.BlockStmt:
			if !rw.skip[b] {
				b.List = rw.stmts(b.List)
			}
		case *ast.CaseClause:
			b.Body = rw.stmts(b.Body)
		case *ast.CommClause:
			b.Body = rw.stmts(b.Body)
		}
		return true
	})
	// function entries: yield points
	for _, d := range f.Decls {
		fd, ok := d.(*ast.FuncDecl)
		if !ok || fd.Body == nil {
			continue
		}
		name := fd.Name.Name
		if fd.Recv != nil && len(fd.Recv.List) > 0 {
			name = recvName(fd.Recv.List[0].Type) + "." + name
		}
		if name == "init" {
			continue
		}
		y := &ast.ExprStmt{X: simrtCall("Yield", &ast.BasicLit{Kind: token.STRING, Value: strconv.Quote(rw.short + "." + name)})}
		fd.Body.List = append([]ast.Stmt{y}, fd.Body.List...)
		rw.yields++
		rw.changed = true
	}
}

func recvName(e ast.Expr) string {
	switch t := e.(type) {
	case *ast.StarExpr:
		return recvName(t.X)
	case *ast.Ident:
		return t.Name
	case *ast.IndexExpr:
		return recvName(t.X)
	}
	return "?"
}
